import DvcData.Model.IndexLazy
import DvcData.Proofs.AList
import DvcData.Proofs.Sets
/-!
# Lazy loading is transparent (helper lemmas for C17)

`longestPrefix` is characterised by `IsLP`; `denote` is what an index *means* at a key (an explicit
entry, or what the directory object of the longest explicit prefix lists there).
-/
namespace DvcData.IndexLazy
open DvcData Path AList

/-- `p` is the longest key bound in `idx` that is a prefix of `k` -/
def IsLP (idx : LIndex) (k p : Key) : Prop :=
  (idx.lookup p).isSome = true ∧ p <+: k ∧ ∀ q, (idx.lookup q).isSome = true → q <+: k → q.length ≤ p.length

theorem isLP_unique (idx : LIndex) (k p q : Key) (hp : IsLP idx k p) (hq : IsLP idx k q) : p = q := by
  have h1 := hp.2.2 q hq.1 hq.2.1
  have h2 := hq.2.2 p hp.1 hp.2.1
  have hpq : p <+: q := List.prefix_of_prefix_length_le hp.2.1 hq.2.1 h2
  exact hpq.eq_of_length (by omega)

def lpStep (k : Key) (best : Option Key) (e : Key × LEntry) : Option Key :=
  if e.1.isPrefixOf k then
    match best with
    | some b => if b.length < e.1.length then some e.1 else best
    | none => some e.1
  else best

theorem longestPrefix_eq (idx : LIndex) (k : Key) : longestPrefix idx k = idx.foldl (lpStep k) none := rfl

theorem lp_fold_spec (k : Key) : ∀ (l : LIndex) (best : Option Key),
    (∀ b, best = some b → b <+: k) →
    match l.foldl (lpStep k) best with
    | none => best = none ∧ ∀ e ∈ l, ¬ e.1 <+: k
    | some p => p <+: k ∧ (best = some p ∨ ∃ e ∈ l, e.1 = p) ∧
        (∀ b, best = some b → b.length ≤ p.length) ∧ ∀ e ∈ l, e.1 <+: k → e.1.length ≤ p.length := by
  intro l
  induction l with
  | nil =>
    intro best hb
    cases best with
    | none => simp
    | some b => simp [hb b rfl]
  | cons a r ih =>
    intro best hb
    simp only [List.foldl_cons]
    have hstep : ∀ b, lpStep k best a = some b → b <+: k := by
      intro b h
      unfold lpStep at h
      split at h
      · rename_i hp
        have hap : a.1 <+: k := List.isPrefixOf_iff_prefix.mp hp
        cases best with
        | none => simp at h; rw [← h]; exact hap
        | some b0 =>
          simp only at h
          split at h
          · injection h with h; rw [← h]; exact hap
          · exact hb b h
      · exact hb b h
    have := ih (lpStep k best a) hstep
    cases hres : r.foldl (lpStep k) (lpStep k best a) with
    | none =>
      rw [hres] at this
      simp only at this ⊢
      obtain ⟨h1, h2⟩ := this
      unfold lpStep at h1
      split at h1
      · cases best with
        | none => simp at h1
        | some b0 => simp only at h1; split at h1 <;> simp at h1
      · rename_i hp
        refine ⟨h1, ?_⟩
        intro e he
        rcases List.mem_cons.mp he with rfl | he
        · intro hpre; exact hp (List.isPrefixOf_iff_prefix.mpr hpre)
        · exact h2 e he
    | some p =>
      rw [hres] at this
      simp only at this ⊢
      obtain ⟨h1, h2, h3, h4⟩ := this
      refine ⟨h1, ?_, ?_, ?_⟩
      · rcases h2 with h2 | ⟨e, he, hep⟩
        · unfold lpStep at h2
          split at h2
          · cases best with
            | none => simp at h2; exact Or.inr ⟨a, by simp, h2⟩
            | some b0 =>
              simp only at h2
              split at h2
              · injection h2 with h2; exact Or.inr ⟨a, by simp, h2⟩
              · exact Or.inl h2
          · exact Or.inl h2
        · exact Or.inr ⟨e, List.mem_cons_of_mem _ he, hep⟩
      · intro b hbb
        subst hbb
        unfold lpStep at h3
        split at h3
        · simp only at h3
          split at h3
          · have := h3 a.1 rfl; omega
          · exact h3 b rfl
        · exact h3 b rfl
      · intro e he hpre
        rcases List.mem_cons.mp he with rfl | he
        · unfold lpStep at h3
          have hp : e.1.isPrefixOf k = true := List.isPrefixOf_iff_prefix.mpr hpre
          simp only [hp, if_true] at h3
          cases best with
          | none => exact h3 e.1 rfl
          | some b0 =>
            simp only at h3
            split at h3
            · exact h3 e.1 rfl
            · have := h3 b0 rfl; omega
        · exact h4 e he hpre

theorem mem_keys_of_lookup_isSome (idx : LIndex) (q : Key) (h : (idx.lookup q).isSome = true) : ∃ v, (q, v) ∈ idx := by
  cases hl : idx.lookup q with
  | none => rw [hl] at h; cases h
  | some v => exact ⟨v, AList.mem_of_lookup idx q v hl⟩

theorem lookup_isSome_of_mem (idx : LIndex) (e : Key × LEntry) (h : e ∈ idx) : (idx.lookup e.1).isSome = true := by
  rw [AList.lookup_isSome_iff_mem_keys]
  exact List.mem_map.mpr ⟨e, h, rfl⟩

/-- `longestPrefix` returns the longest bound prefix, and `none` only when there is none -/
theorem longestPrefix_spec (idx : LIndex) (k : Key) :
    match longestPrefix idx k with
    | none => ∀ q, (idx.lookup q).isSome = true → ¬ q <+: k
    | some p => IsLP idx k p := by
  have := lp_fold_spec k idx none (by intro b h; cases h)
  rw [longestPrefix_eq]
  cases hres : idx.foldl (lpStep k) none with
  | none =>
    rw [hres] at this
    simp only at this ⊢
    intro q hq hpre
    obtain ⟨v, hv⟩ := mem_keys_of_lookup_isSome idx q hq
    exact this.2 (q, v) hv hpre
  | some p =>
    rw [hres] at this
    simp only at this ⊢
    obtain ⟨h1, h2, _, h4⟩ := this
    refine ⟨?_, h1, ?_⟩
    · rcases h2 with h2 | ⟨e, he, hep⟩
      · cases h2
      · rw [← hep]; exact lookup_isSome_of_mem idx e he
    · intro q hq hpre
      obtain ⟨v, hv⟩ := mem_keys_of_lookup_isSome idx q hq
      exact h4 (q, v) hv hpre

theorem longestPrefix_of_isLP (idx : LIndex) (k p : Key) (h : IsLP idx k p) : longestPrefix idx k = some p := by
  have := longestPrefix_spec idx k
  cases hres : longestPrefix idx k with
  | none => rw [hres] at this; exact absurd h.2.1 (this p h.1)
  | some q => rw [hres] at this; rw [isLP_unique idx k q p this h]

theorem longestPrefix_none_of (idx : LIndex) (k : Key) (h : ∀ q, (idx.lookup q).isSome = true → ¬ q <+: k) :
    longestPrefix idx k = none := by
  have := longestPrefix_spec idx k
  cases hres : longestPrefix idx k with
  | none => rfl
  | some q => rw [hres] at this; exact absurd this.2.1 (h q this.1)


/-! ### what an index means at a key -/

/-- writes applied to an index: the last write to `k` wins, otherwise the old binding stays -/
theorem lookup_setAll_base (es : LIndex) : ∀ (idx : LIndex) (k : Key),
    (setAll idx es).lookup k = match (setAll [] es).lookup k with
      | some v => some v
      | none => idx.lookup k := by
  induction es with
  | nil => intro idx k; simp [setAll]
  | cons c r ih =>
    intro idx k
    have h1 := ih (idx.set c.1 c.2) k
    have h2 := ih (AList.set [] c.1 c.2) k
    simp only [setAll, List.foldl_cons] at h1 h2 ⊢
    rw [h1, h2]
    generalize AList.lookup (List.foldl (fun (i : LIndex) (c : Key × LEntry) => i.set c.1 c.2) ([] : LIndex) r) k = x
    cases x with
    | some v => rfl
    | none =>
      simp only [AList.lookup_set]
      by_cases e : c.1 = k <;> simp [e]

/-- the entry a lazily loaded directory provides at `k` -/
def below (load : Oid → Option Listing) (idx : LIndex) (k : Key) : Option LEntry :=
  match longestPrefix idx k with
  | some d =>
    match idx.lookup d with
    | some e =>
      if e.isdir && !e.loaded then
        match e.hash.bind load with
        | some l => (setAll [] (childrenOf d l)).lookup k
        | none => none
      else none
    | none => none
  | none => none

/-- **the meaning of an index at a key**: kind and hash of the explicit entry, or of what the
    directory object of the longest explicit prefix lists there -/
def denote (load : Oid → Option Listing) (idx : LIndex) (k : Key) : Option (Bool × Option Oid) :=
  match idx.lookup k with
  | some e => some (proj e)
  | none => (below load idx k).map proj

/-- a lookup through the lazy index answers with the meaning of the index -/
theorem getItem_denote (load : Oid → Option Listing) (idx : LIndex) (k : Key) :
    (getItem load idx k).2.map proj = denote load idx k := by
  unfold getItem denote
  cases hk : idx.lookup k with
  | some e => rfl
  | none =>
    simp only [below]
    cases hlp : longestPrefix idx k with
    | none => simp [hk]
    | some d =>
      simp only
      unfold loadAt
      cases hd : idx.lookup d with
      | none => simp [hk]
      | some e =>
        simp only
        by_cases hc : (e.isdir && !e.loaded) = true
        · simp only [hc, if_true]
          cases hl : e.hash.bind load with
          | none => simp [hk]
          | some l =>
            simp only
            have hne : ¬ d = k := by intro h; subst h; rw [hk] at hd; cases hd
            rw [AList.lookup_set]
            simp only [hne, if_false]
            rw [lookup_setAll_base]
            cases (setAll [] (childrenOf d l)).lookup k <;> simp [hk]
        · have hc' : (e.isdir && !e.loaded) = false := by simpa using hc
          simp [hc', hk]


/-! ### loading is transparent -/

/-- well-formed lazy index: an unloaded directory entry has nothing explicit below it (its content is what its
    directory object lists) -/
def W1 (idx : LIndex) : Prop :=
  ∀ d e, idx.lookup d = some e → (e.isdir && !e.loaded) = true →
    ∀ q, (idx.lookup q).isSome = true → d <+: q → q = d

/-- directory objects list files under non-empty relative paths -/
def ListingsOK (load : Oid → Option Listing) : Prop := ∀ o l, load o = some l → ∀ e ∈ l, e.1 ≠ []

theorem mem_dirsOf_ne_nil (l : Listing) (p : Key) (h : p ∈ dirsOf l) : p ≠ [] := by
  unfold dirsOf at h
  have : ∀ (xs : List Key) (acc : List Key), p ∈ xs.foldl insertSet acc → p ∈ acc ∨ p ∈ xs := by
    intro xs
    induction xs with
    | nil => intro acc h; exact Or.inl h
    | cons x r ih =>
      intro acc h
      simp only [List.foldl_cons] at h
      rcases ih _ h with h' | h'
      · rcases (mem_insertSet _ _ _).mp h' with h'' | rfl
        · exact Or.inl h''
        · exact Or.inr (by simp)
      · exact Or.inr (List.mem_cons_of_mem _ h')
  rcases this _ _ h with h' | h'
  · simp at h'
  · simp only [List.mem_flatMap, List.mem_map, List.mem_range] at h'
    obtain ⟨e, _, i, hi, rfl⟩ := h'
    intro hnil
    have := congrArg List.length hnil
    simp only [List.length_take, List.length_nil] at this
    omega

/-- what loading adds sits strictly below the directory and is never itself an unloaded directory -/
theorem childrenOf_spec (d : Key) (l : Listing) (hl : ∀ e ∈ l, e.1 ≠ []) (c : Key × LEntry) (hc : c ∈ childrenOf d l) :
    (∃ rel, rel ≠ [] ∧ c.1 = d ++ rel) ∧ (c.2.isdir && !c.2.loaded) = false := by
  unfold childrenOf at hc
  rcases List.mem_append.mp hc with h | h
  · obtain ⟨e, he, rfl⟩ := List.mem_map.mp h
    exact ⟨⟨e.1, hl e he, rfl⟩, rfl⟩
  · obtain ⟨p, hp, rfl⟩ := List.mem_map.mp h
    exact ⟨⟨p, mem_dirsOf_ne_nil l p hp, rfl⟩, rfl⟩

theorem lookup_setAll_nil_mem (es : LIndex) (k : Key) (v : LEntry) (h : (setAll [] es).lookup k = some v) :
    (k, v) ∈ es := by
  have : ∀ (es : LIndex) (idx : LIndex), (setAll idx es).lookup k = some v → (k, v) ∈ es ∨ idx.lookup k = some v := by
    intro es
    induction es with
    | nil => intro idx h; exact Or.inr h
    | cons c r ih =>
      intro idx h
      simp only [setAll, List.foldl_cons] at h
      rcases ih (idx.set c.1 c.2) h with h' | h'
      · exact Or.inl (List.mem_cons_of_mem _ h')
      · rw [AList.lookup_set] at h'
        by_cases e : c.1 = k
        · simp only [e, if_true] at h'
          injection h' with h'
          left; rw [← e, ← h']; simp
        · simp only [e, if_false] at h'; exact Or.inr h'
  rcases this es [] h with h' | h'
  · exact h'
  · simp at h'

theorem strict_below_ne (d rel : Key) (h : rel ≠ []) : d ++ rel ≠ d := by
  intro e
  have := congrArg List.length e
  simp only [List.length_append] at this
  exact h (List.eq_nil_of_length_eq_zero (by omega))

/-- in a well-formed index the longest bound prefix of anything below an unloaded directory is that directory -/
theorem isLP_unloaded (idx : LIndex) (hw : W1 idx) (d k : Key) (e : LEntry) (hd : idx.lookup d = some e)
    (hc : (e.isdir && !e.loaded) = true) (hdk : d <+: k) : IsLP idx k d := by
  refine ⟨by simp [hd], hdk, ?_⟩
  intro q hq hqk
  rcases Nat.lt_or_ge d.length q.length with hlt | hge
  · have hdq : d <+: q := List.prefix_of_prefix_length_le hdk hqk (Nat.le_of_lt hlt)
    have := hw d e hd hc q hq hdq
    rw [this] at hlt; omega
  · exact hge

section loaded
variable (load : Oid → Option Listing) (idx : LIndex) (d : Key) (e : LEntry) (l : Listing)

/-- the index after `_load(d)` succeeded -/
def loadedIdx : LIndex := (setAll idx (childrenOf d l)).set d { e with loaded := true }

theorem lookup_loadedIdx (q : Key) :
    (loadedIdx idx d e l).lookup q =
      if d = q then some { e with loaded := true } else
      match (setAll [] (childrenOf d l)).lookup q with
      | some v => some v
      | none => idx.lookup q := by
  unfold loadedIdx
  rw [AList.lookup_set, lookup_setAll_base]

theorem loadAt_eq (hd : idx.lookup d = some e) (hc : (e.isdir && !e.loaded) = true) (hl : e.hash.bind load = some l) :
    loadAt load idx d = loadedIdx idx d e l := by
  unfold loadAt loadedIdx
  simp [hd, hc, hl]

end loaded

theorem loadedIdx_denote (load : Oid → Option Listing) (idx : LIndex) (hw : W1 idx) (d : Key) (e : LEntry) (l : Listing)
    (hd : idx.lookup d = some e) (hc : (e.isdir && !e.loaded) = true) (hl : e.hash.bind load = some l)
    (hlk : ∀ x ∈ l, x.1 ≠ []) (k : Key) :
    denote load (loadedIdx idx d e l) k = denote load idx k := by
  have hlook := lookup_loadedIdx idx d e l
  by_cases hkd : d = k
  · subst hkd
    unfold denote
    rw [hlook, hd]; simp [proj]
  · cases hch : (setAll [] (childrenOf d l)).lookup k with
    | some v =>
      -- k is one of the listed paths
      have hmem := lookup_setAll_nil_mem _ k v hch
      obtain ⟨⟨rel, hrel, hk⟩, _⟩ := childrenOf_spec d l hlk (k, v) hmem
      simp only at hk
      have hdk : d <+: k := by rw [hk]; exact List.prefix_append _ _
      have hnone : idx.lookup k = none := by
        cases hh : idx.lookup k with
        | none => rfl
        | some x =>
          have := hw d e hd hc k (by simp [hh]) hdk
          exact absurd this.symm hkd
      have hlp := longestPrefix_of_isLP idx k d (isLP_unloaded idx hw d k e hd hc hdk)
      unfold denote
      rw [hlook, hnone]
      simp only [hkd, if_false, hch, below, hlp, hd, hc, if_true, hl, Option.map_some]
    | none =>
      have hsame : (loadedIdx idx d e l).lookup k = idx.lookup k := by rw [hlook]; simp [hkd, hch]
      unfold denote
      rw [hsame]
      cases hik : idx.lookup k with
      | some x => rfl
      | none =>
        simp only
        congr 1
        by_cases hdk : d <+: k
        · -- below `d`, but not listed: nothing there before, nothing there after
          have hlp := longestPrefix_of_isLP idx k d (isLP_unloaded idx hw d k e hd hc hdk)
          have hbefore : below load idx k = none := by
            simp only [below, hlp, hd, hc, if_true, hl, hch]
          rw [hbefore]
          have hspec := longestPrefix_spec (loadedIdx idx d e l) k
          cases hlp' : longestPrefix (loadedIdx idx d e l) k with
          | none => simp [below, hlp']
          | some p =>
            rw [hlp'] at hspec
            simp only at hspec
            have hdbound : ((loadedIdx idx d e l).lookup d).isSome = true := by rw [hlook]; simp
            have hlen := hspec.2.2 d hdbound hdk
            have hdp : d <+: p := List.prefix_of_prefix_length_le hdk hspec.2.1 hlen
            simp only [below, hlp']
            rw [hlook]
            by_cases hpd : d = p
            · simp [hpd]
            · simp only [hpd, if_false]
              cases hcp : (setAll [] (childrenOf d l)).lookup p with
              | some v =>
                have hm := lookup_setAll_nil_mem _ p v hcp
                have := (childrenOf_spec d l hlk (p, v) hm).2
                simp only at this
                simp [this]
              | none =>
                simp only
                cases hip : idx.lookup p with
                | none => rfl
                | some x =>
                  have := hw d e hd hc p (by simp [hip]) hdp
                  exact absurd this.symm hpd
        · -- elsewhere: the bound prefixes of `k` are the same before and after
          have hnew : ∀ q, q <+: k → (setAll [] (childrenOf d l)).lookup q = none := by
            intro q hqk
            cases hq : (setAll [] (childrenOf d l)).lookup q with
            | none => rfl
            | some v =>
              have hm := lookup_setAll_nil_mem _ q v hq
              obtain ⟨⟨rel, _, hqr⟩, _⟩ := childrenOf_spec d l hlk (q, v) hm
              simp only at hqr
              exact absurd ((List.prefix_append d rel).trans (hqr ▸ hqk)) hdk
          have hsameq : ∀ q, q <+: k → (loadedIdx idx d e l).lookup q = idx.lookup q := by
            intro q hqk
            rw [hlook]
            have : ¬ d = q := fun h => hdk (h ▸ hqk)
            simp [this, hnew q hqk]
          have hspec := longestPrefix_spec idx k
          cases hlp : longestPrefix idx k with
          | none =>
            rw [hlp] at hspec
            have : longestPrefix (loadedIdx idx d e l) k = none := by
              apply longestPrefix_none_of
              intro q hq hqk
              rw [hsameq q hqk] at hq
              exact hspec q hq hqk
            simp [below, hlp, this]
          | some p =>
            rw [hlp] at hspec
            simp only at hspec
            have : longestPrefix (loadedIdx idx d e l) k = some p := by
              apply longestPrefix_of_isLP
              refine ⟨by rw [hsameq p hspec.2.1]; exact hspec.1, hspec.2.1, ?_⟩
              intro q hq hqk
              rw [hsameq q hqk] at hq
              exact hspec.2.2 q hq hqk
            simp only [below, hlp, this, hsameq p hspec.2.1]

/-- **loading any directory does not change what the index means at any key** -/
theorem loadAt_denote (load : Oid → Option Listing) (hlo : ListingsOK load) (idx : LIndex) (hw : W1 idx) (d k : Key) :
    denote load (loadAt load idx d) k = denote load idx k := by
  cases hd : idx.lookup d with
  | none => simp [loadAt, hd]
  | some e =>
    by_cases hc : (e.isdir && !e.loaded) = true
    · cases hl : e.hash.bind load with
      | none => simp [loadAt, hd, hc, hl]
      | some l =>
        have hlk : ∀ x ∈ l, x.1 ≠ [] := by
          cases hh : e.hash with
          | none => rw [hh] at hl; cases hl
          | some o => rw [hh] at hl; exact hlo o l hl
        rw [loadAt_eq load idx d e l hd hc hl]
        exact loadedIdx_denote load idx hw d e l hd hc hl hlk k
    · have hc' : (e.isdir && !e.loaded) = false := by simpa using hc
      simp [loadAt, hd, hc']


theorem loadedIdx_W1 (idx : LIndex) (hw : W1 idx) (d : Key) (e : LEntry) (l : Listing)
    (hd : idx.lookup d = some e) (hc : (e.isdir && !e.loaded) = true) (hlk : ∀ x ∈ l, x.1 ≠ []) :
    W1 (loadedIdx idx d e l) := by
  have hlook := lookup_loadedIdx idx d e l
  -- an unloaded directory of the new index is an unloaded directory of the old one, different from `d`
  have hold : ∀ d2 e2, (loadedIdx idx d e l).lookup d2 = some e2 → (e2.isdir && !e2.loaded) = true →
      d ≠ d2 ∧ idx.lookup d2 = some e2 := by
    intro d2 e2 h2 hc2
    rw [hlook] at h2
    by_cases hdd : d = d2
    · simp only [hdd, if_true] at h2
      injection h2 with h2
      rw [← h2] at hc2; simp at hc2
    · simp only [hdd, if_false] at h2
      cases hch : (setAll [] (childrenOf d l)).lookup d2 with
      | some v =>
        rw [hch] at h2
        simp only at h2
        injection h2 with h2
        have hm := lookup_setAll_nil_mem _ d2 v hch
        have := (childrenOf_spec d l hlk (d2, v) hm).2
        simp only at this
        rw [h2] at this; rw [this] at hc2; cases hc2
      | none => rw [hch] at h2; exact ⟨hdd, h2⟩
  intro d2 e2 h2 hc2 q hq hd2q
  obtain ⟨hne, h2old⟩ := hold d2 e2 h2 hc2
  rw [hlook] at hq
  by_cases hdq : d = q
  · -- q = d: then d2 is a prefix of d, so d = d2 by well-formedness of the old index
    subst hdq
    exact hw d2 e2 h2old hc2 d (by simp [hd]) hd2q
  · simp only [hdq, if_false] at hq
    cases hch : (setAll [] (childrenOf d l)).lookup q with
    | some v =>
      have hm := lookup_setAll_nil_mem _ q v hch
      obtain ⟨⟨rel, _, hqr⟩, _⟩ := childrenOf_spec d l hlk (q, v) hm
      simp only at hqr
      have hdq' : d <+: q := by rw [hqr]; exact List.prefix_append _ _
      -- d and d2 are both prefixes of q, hence comparable; either way the old index was not well-formed
      rcases Nat.le_total d.length d2.length with hle | hle
      · have : d <+: d2 := List.prefix_of_prefix_length_le hdq' hd2q hle
        exact absurd (hw d e hd hc d2 (by simp [h2old]) this).symm hne
      · have : d2 <+: d := List.prefix_of_prefix_length_le hd2q hdq' hle
        exact absurd (hw d2 e2 h2old hc2 d (by simp [hd]) this) hne
    | none =>
      rw [hch] at hq
      exact hw d2 e2 h2old hc2 q hq hd2q

theorem loadAt_W1 (load : Oid → Option Listing) (hlo : ListingsOK load) (idx : LIndex) (hw : W1 idx) (d : Key) :
    W1 (loadAt load idx d) := by
  cases hd : idx.lookup d with
  | none => simpa [loadAt, hd] using hw
  | some e =>
    by_cases hc : (e.isdir && !e.loaded) = true
    · cases hl : e.hash.bind load with
      | none => simpa [loadAt, hd, hc, hl] using hw
      | some l =>
        have hlk : ∀ x ∈ l, x.1 ≠ [] := by
          cases hh : e.hash with
          | none => rw [hh] at hl; cases hl
          | some o => rw [hh] at hl; exact hlo o l hl
        rw [loadAt_eq load idx d e l hd hc hl]
        exact loadedIdx_W1 idx hw d e l hd hc hlk
    · have hc' : (e.isdir && !e.loaded) = false := by simpa using hc
      simpa [loadAt, hd, hc'] using hw

end DvcData.IndexLazy
