import DvcData.Model.Status
namespace DvcData
open Status

variable {Oid : Type} [DecidableEq Oid]

theorem mem_insertSet (s : List Oid) (x y : Oid) : y ∈ insertSet s x ↔ y ∈ s ∨ y = x := by
  unfold insertSet
  split
  · rename_i h
    constructor
    · exact Or.inl
    · rintro (h' | rfl)
      · exact h'
      · exact h
  · simp

namespace Status

theorem mem_union (a b : List Oid) (y : Oid) : y ∈ union a b ↔ y ∈ a ∨ y ∈ b := by
  unfold union
  induction b generalizing a with
  | nil => simp
  | cons x r ih =>
    simp only [List.foldl_cons, ih, mem_insertSet, List.mem_cons]
    constructor
    · rintro ((h | h) | h)
      · exact Or.inl h
      · exact Or.inr (Or.inl h)
      · exact Or.inr (Or.inr h)
    · rintro (h | h | h)
      · exact Or.inl (Or.inl h)
      · exact Or.inl (Or.inr h)
      · exact Or.inr h

theorem mem_inter (a b : List Oid) (y : Oid) : y ∈ inter a b ↔ y ∈ a ∧ y ∈ b := by
  simp [inter]

theorem mem_diff (a b : List Oid) (y : Oid) : y ∈ diff a b ↔ y ∈ a ∧ y ∉ b := by
  simp [diff]

theorem mem_dedup (a : List Oid) (y : Oid) : y ∈ dedup a ↔ y ∈ a := by
  simp [dedup, mem_union]

end Status
end DvcData
