import DvcData.Model.Path
namespace DvcData.Path

theorem splitC_ne_nil (s : List Char) : splitC s ≠ [] := by
  induction s with
  | nil => simp [splitC]
  | cons c r ih =>
    simp only [splitC]
    split
    · simp
    · split <;> simp

theorem splitC_nosep (p : Part) (h : sep ∉ p) : splitC p = [p] := by
  induction p with
  | nil => rfl
  | cons c r ih =>
    have hc : c ≠ sep := fun e => h (by simp [e])
    have hr : sep ∉ r := fun e => h (by simp [e])
    simp [splitC, hc, ih hr]

theorem splitC_append_sep (p : Part) (s : List Char) (h : sep ∉ p) :
    splitC (p ++ sep :: s) = p :: splitC s := by
  induction p with
  | nil => simp [splitC]
  | cons c r ih =>
    have hc : c ≠ sep := fun e => h (by simp [e])
    have hr : sep ∉ r := fun e => h (by simp [e])
    simp [splitC, hc, ih hr]

/-- `"/".join(key).split("/") == key` for every key that has a textual form -/
theorem splitC_joinC (k : Key) (h : KeyOK k) : splitC (joinC k) = k := by
  obtain ⟨hne, hp⟩ := h
  induction k with
  | nil => exact absurd rfl hne
  | cons p r ih =>
    cases r with
    | nil => simpa [joinC] using splitC_nosep p (hp p (by simp))
    | cons q r' =>
      simp only [joinC]
      rw [splitC_append_sep p _ (hp p (by simp))]
      rw [ih (by simp) (fun x hx => hp x (List.mem_cons_of_mem _ hx))]

/-- hence distinct keys have distinct relpaths -/
theorem joinC_injective (k1 k2 : Key) (h1 : KeyOK k1) (h2 : KeyOK k2) (h : joinC k1 = joinC k2) :
    k1 = k2 := by
  rw [← splitC_joinC k1 h1, ← splitC_joinC k2 h2, h]

/-- the parts produced by `split` never contain the separator and the result is never empty -/
theorem splitC_KeyOK (s : List Char) : KeyOK (splitC s) := by
  refine ⟨splitC_ne_nil s, ?_⟩
  induction s with
  | nil => intro p hp; simp [splitC] at hp; subst hp; simp
  | cons c r ih =>
    intro p hp
    simp only [splitC] at hp
    split at hp
    · simp at hp
      rcases hp with rfl | hp
      · simp
      · exact ih p hp
    · rename_i hc
      split at hp
      · simp at hp; subst hp; simp; exact fun e => hc e.symm
      · rename_i p0 ps heq
        simp at hp
        rcases hp with rfl | hp
        · have := ih p0 (by rw [heq]; simp)
          simp; exact ⟨fun e => hc e.symm, this⟩
        · exact ih p (by rw [heq]; simp [hp])

/-- `split` then `join` is the identity on every string -/
theorem joinC_splitC (s : List Char) : joinC (splitC s) = s := by
  induction s with
  | nil => rfl
  | cons c r ih =>
    simp only [splitC]
    cases hs : splitC r with
    | nil => exact absurd hs (splitC_ne_nil r)
    | cons q qs =>
      rw [hs] at ih
      split
      · rename_i hc
        show joinC ([] :: q :: qs) = c :: r
        rw [joinC, ih, hc]; rfl
      · cases qs with
        | nil =>
          show joinC [c :: q] = c :: r
          simp only [joinC] at ih ⊢; rw [ih]
        | cons q2 qs2 =>
          show joinC ((c :: q) :: q2 :: qs2) = c :: r
          simp only [joinC] at ih ⊢
          rw [← ih]; rfl

end DvcData.Path
