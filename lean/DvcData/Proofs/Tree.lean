import DvcData.Model.Tree
import DvcData.Proofs.Path
namespace DvcData.Tree
open DvcData Path Json MetaInfo List

theorem charsLe_trans (a b c : List Char) (h1 : charsLe a b = true) (h2 : charsLe b c = true) :
    charsLe a c = true := by
  unfold charsLe at *
  simp only [decide_eq_true_eq] at *
  exact List.le_trans h1 h2

theorem charsLe_total (a b : List Char) : (charsLe a b || charsLe b a) = true := by
  unfold charsLe
  rcases List.le_total a b with h | h <;> simp [h]

theorem charsLe_antisymm (a b : List Char) (h1 : charsLe a b = true) (h2 : charsLe b a = true) : a = b := by
  unfold charsLe at *
  simp only [decide_eq_true_eq] at *
  exact List.le_antisymm h1 h2

/-- sorting by the first component a list whose first components are pairwise distinct gives a
    result that depends only on the *set* of elements -/
theorem sortByFst_perm {β : Type} (l1 l2 : List (List Char × β)) (hp : l1 ~ l2)
    (hnd : (l1.map (·.1)).Nodup) :
    l1.mergeSort (fun a b => charsLe a.1 b.1) = l2.mergeSort (fun a b => charsLe a.1 b.1) := by
  let le : List Char × β → List Char × β → Bool := fun a b => charsLe a.1 b.1
  have tr : ∀ a b c : List Char × β, le a b = true → le b c = true → le a c = true :=
    fun a b c => charsLe_trans a.1 b.1 c.1
  have tot : ∀ a b : List Char × β, (le a b || le b a) = true := fun a b => charsLe_total a.1 b.1
  have s1 := pairwise_mergeSort tr tot l1
  have s2 := pairwise_mergeSort tr tot l2
  have p : l1.mergeSort le ~ l2.mergeSort le :=
    (mergeSort_perm l1 le).trans (hp.trans (mergeSort_perm l2 le).symm)
  refine Perm.eq_of_pairwise (le := fun a b => le a b = true) ?_ s1 s2 p
  intro a b ha hb hab hba
  have ha' : a ∈ l1 := (mergeSort_perm l1 le).mem_iff.mp ha
  have hb' : b ∈ l1 := hp.mem_iff.mpr ((mergeSort_perm l2 le).mem_iff.mp hb)
  have hk : a.1 = b.1 := charsLe_antisymm a.1 b.1 hab hba
  -- equal first components in a list with distinct first components: equal elements
  clear s1 s2 p ha hb hab hba tr tot
  induction l1 generalizing l2 with
  | nil => simp at ha'
  | cons x xs ih =>
    simp only [map_cons, nodup_cons] at hnd
    rcases mem_cons.mp ha' with rfl | ha''
    · rcases mem_cons.mp hb' with rfl | hb''
      · rfl
      · exact absurd (mem_map.mpr ⟨b, hb'', hk.symm⟩) hnd.1
    · rcases mem_cons.mp hb' with rfl | hb''
      · exact absurd (mem_map.mpr ⟨a, ha'', hk⟩) hnd.1
      · exact ih xs (Perm.refl _) hnd.2 ha'' hb''

/-- the relpaths of a tree -/
def relpaths (t : Tree) : List (List Char) := t.map fun e => joinC e.1

theorem asList_perm (w : Bool) (t1 t2 : Tree) (hp : t1 ~ t2) (hnd : (relpaths t1).Nodup) :
    asList w t1 = asList w t2 := by
  unfold asList
  congr 1
  apply sortByFst_perm _ _ (hp.map _)
  simpa [relpaths, Function.comp_def] using hnd

/-- distinct well-formed keys have distinct relpaths, so the hypothesis of `asList_perm` holds
    for every `Tree._dict` with `KeyOK` keys -/
theorem relpaths_nodup (t : Tree) (hwf : AList.WF t) (hok : ∀ e ∈ t, KeyOK e.1) : (relpaths t).Nodup := by
  unfold relpaths
  induction t with
  | nil => simp
  | cons e r ih =>
    unfold AList.WF AList.keys at hwf ih
    simp only [map_cons, nodup_cons] at hwf ⊢
    refine ⟨?_, ih hwf.2 (fun x hx => hok x (mem_cons_of_mem _ hx))⟩
    intro hm
    obtain ⟨x, hx, hj⟩ := mem_map.mp hm
    have : x.1 = e.1 := joinC_injective _ _ (hok x (mem_cons_of_mem _ hx)) (hok e (by simp)) hj
    exact hwf.1 (mem_map.mpr ⟨x, hx, this⟩)

/-- without metadata an entry's dict depends on its key and hash only -/
theorem entryDict_false_meta (k : Key) (m1 m2 : Option Meta) (h : Option HashInfo) :
    entryDict false (k, (m1, h)) = entryDict false (k, (m2, h)) := rfl

/-- forget the metadata of every entry -/
def stripMeta (t : Tree) : Tree := t.map fun e => (e.1, (none, e.2.2))

theorem asList_stripMeta (t : Tree) : asList false (stripMeta t) = asList false t := by
  unfold asList stripMeta
  simp only [map_map]
  rfl

theorem subtree_map {α : Type} (f : α → TVal) (l : List (Key × α)) (pfx : Key) :
    subtree (l.map fun e => (e.1, f e.2)) pfx =
      (l.filterMap fun e => match stripPrefix pfx e.1 with
        | some k => if k = [] then none else some (k, e.2)
        | none => none).map fun e => (e.1, f e.2) := by
  unfold subtree
  induction l with
  | nil => rfl
  | cons e r ih =>
    simp only [map_cons, filterMap_cons]
    cases hs : stripPrefix pfx e.1 with
    | none => simpa using ih
    | some k =>
      by_cases hk : k = []
      · simpa [hk] using ih
      · simp [hk]; simpa using ih

end DvcData.Tree
