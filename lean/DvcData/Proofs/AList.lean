import DvcData.Model.Basic
namespace DvcData.AList
variable {κ ν : Type} [DecidableEq κ]

theorem lookup_eq_none_iff (d : AList κ ν) (k : κ) : lookup d k = none ↔ k ∉ keys d := by
  have := lookup_isSome_iff_mem_keys d k
  cases h : lookup d k <;> simp_all

theorem mem_of_lookup (d : AList κ ν) (k : κ) (v : ν) (h : lookup d k = some v) : (k, v) ∈ d := by
  induction d with
  | nil => simp at h
  | cons p r ih =>
    obtain ⟨k', v'⟩ := p
    rw [lookup_cons] at h
    by_cases e : k' = k
    · simp [e] at h; subst e; subst h; simp
    · simp [e] at h; exact List.mem_cons_of_mem _ (ih h)

theorem lookup_of_mem (d : AList κ ν) (hwf : WF d) (k : κ) (v : ν) (h : (k, v) ∈ d) :
    lookup d k = some v := by
  induction d with
  | nil => simp at h
  | cons p r ih =>
    obtain ⟨k', v'⟩ := p
    unfold WF keys at hwf ih
    simp only [List.map_cons, List.nodup_cons] at hwf
    rw [lookup_cons]
    rcases List.mem_cons.mp h with e | hm
    · cases e; simp
    · have : k' ≠ k := by
        intro e; subst e
        exact hwf.1 (List.mem_map.mpr ⟨(k', v), hm, rfl⟩)
      simp [this]; exact ih hwf.2 hm

theorem contains_eq_true_iff (d : AList κ ν) (k : κ) : contains d k = true ↔ ∃ v, lookup d k = some v := by
  unfold contains
  cases lookup d k <;> simp

theorem contains_eq_false_iff (d : AList κ ν) (k : κ) : contains d k = false ↔ lookup d k = none := by
  unfold contains
  cases lookup d k <;> simp

end DvcData.AList
