import DvcData.Model.Merge
import DvcData.Proofs.AList
namespace DvcData.Merge
open DvcData AList
variable {κ ν : Type} [DecidableEq κ] [DecidableEq ν]

def Uniq (rs : List (Rec κ ν)) : Prop := ∀ r ∈ rs, ∀ r' ∈ rs, r.key = r'.key → r = r'

theorem lookup_applyRec (d d' : AList κ ν) (r : Rec κ ν) (h : applyRec d r = some d') (k : κ) :
    d'.lookup k = if r.key = k then r.value else d.lookup k := by
  cases r with
  | add k' v =>
    simp [applyRec] at h; subst h
    by_cases e : k' = k <;> simp [e, lookup_set, Rec.key, Rec.value]
  | change k' v =>
    simp [applyRec] at h; subst h
    by_cases e : k' = k <;> simp [e, lookup_set, Rec.key, Rec.value]
  | remove k' =>
    simp only [applyRec] at h
    split at h
    · simp at h; subst h
      by_cases e : k' = k <;> simp [e, lookup_erase, Rec.key, Rec.value]
    · simp at h

theorem patch_untouched (rs : List (Rec κ ν)) : ∀ (d d' : AList κ ν) (k : κ),
    patch rs d = some d' → (∀ r ∈ rs, r.key ≠ k) → d'.lookup k = d.lookup k := by
  induction rs with
  | nil => intro d d' k h _; simp [patch] at h; subst h; rfl
  | cons r rest ih =>
    intro d d' k h hk
    simp only [patch] at h
    split at h
    · simp at h
    · rename_i d1 h1
      rw [ih d1 d' k h (fun r' hr' => hk r' (List.mem_cons_of_mem _ hr'))]
      rw [lookup_applyRec d d1 r h1 k]
      simp [hk r (by simp)]

theorem patch_touched (rs : List (Rec κ ν)) : ∀ (d d' : AList κ ν) (r : Rec κ ν),
    patch rs d = some d' → Uniq rs → r ∈ rs → d'.lookup r.key = r.value := by
  induction rs with
  | nil => intro d d' r _ _ hr; simp at hr
  | cons r0 rest ih =>
    intro d d' r h hu hr
    simp only [patch] at h
    split at h
    · simp at h
    · rename_i d1 h1
      by_cases hin : r ∈ rest
      · exact ih d1 d' r h (fun x hx y hy e => hu x (List.mem_cons_of_mem _ hx) y (List.mem_cons_of_mem _ hy) e) hin
      · have hr0 : r = r0 := by
          rcases List.mem_cons.mp hr with e | e
          · exact e
          · exact absurd e hin
        subst hr0
        have hne : ∀ r' ∈ rest, r'.key ≠ r.key := by
          intro r' hr' e
          have := hu r' (List.mem_cons_of_mem _ hr') r (by simp) e
          subst this; exact hin hr'
        rw [patch_untouched rest d1 d' r.key h hne, lookup_applyRec d d1 r h1 r.key]
        simp

theorem patch_append (r1 r2 : List (Rec κ ν)) : ∀ d : AList κ ν,
    patch (r1 ++ r2) d = (patch r1 d).bind (patch r2) := by
  induction r1 with
  | nil => intro d; simp [patch]
  | cons r rest ih =>
    intro d
    simp only [List.cons_append, patch]
    split
    · simp
    · exact ih _

/-! ### specification of `ddiff` -/

theorem mem_ddiff_change (a b : AList κ ν) (hwa : WF a) (k : κ) (v : ν) :
    Rec.change k v ∈ ddiff a b ↔ ∃ va, a.lookup k = some va ∧ b.lookup k = some v ∧ va ≠ v := by
  unfold ddiff
  simp only [List.mem_append, List.mem_filterMap]
  constructor
  · rintro ((⟨p, hp, h⟩ | ⟨p, _, h⟩) | ⟨p, _, h⟩)
    · obtain ⟨k', va⟩ := p
      simp only at h
      split at h
      · rename_i vb hb
        split at h
        · simp at h
        · rename_i hne
          simp at h
          obtain ⟨rfl, rfl⟩ := h
          exact ⟨va, lookup_of_mem a hwa _ _ hp, hb, hne⟩
      · simp at h
    · split at h <;> simp at h
    · split at h <;> simp at h
  · rintro ⟨va, ha, hb, hne⟩
    refine Or.inl (Or.inl ⟨(k, va), mem_of_lookup a k va ha, ?_⟩)
    simp [hb, hne]

theorem mem_ddiff_add (a b : AList κ ν) (hwb : WF b) (k : κ) (v : ν) :
    Rec.add k v ∈ ddiff a b ↔ a.lookup k = none ∧ b.lookup k = some v := by
  unfold ddiff
  simp only [List.mem_append, List.mem_filterMap]
  constructor
  · rintro ((⟨p, _, h⟩ | ⟨p, hp, h⟩) | ⟨p, _, h⟩)
    · split at h
      · split at h <;> simp at h
      · simp at h
    · obtain ⟨k', vb⟩ := p
      simp only at h
      split at h
      · simp at h
      · rename_i hc
        simp at h
        obtain ⟨rfl, rfl⟩ := h
        exact ⟨(contains_eq_false_iff a _).mp (by simpa using hc), lookup_of_mem b hwb _ _ hp⟩
    · split at h <;> simp at h
  · rintro ⟨ha, hb⟩
    refine Or.inl (Or.inr ⟨(k, v), mem_of_lookup b k v hb, ?_⟩)
    simp [(contains_eq_false_iff a k).mpr ha]

theorem mem_ddiff_remove (a b : AList κ ν) (k : κ) :
    Rec.remove k ∈ ddiff a b ↔ (∃ va, a.lookup k = some va) ∧ b.lookup k = none := by
  unfold ddiff
  simp only [List.mem_append, List.mem_filterMap]
  constructor
  · rintro ((⟨p, _, h⟩ | ⟨p, _, h⟩) | ⟨p, hp, h⟩)
    · split at h
      · split at h <;> simp at h
      · simp at h
    · split at h <;> simp at h
    · obtain ⟨k', va⟩ := p
      simp only at h
      split at h
      · simp at h
      · rename_i hc
        simp at h
        subst h
        have hk : k' ∈ keys a := List.mem_map.mpr ⟨(k', va), hp, rfl⟩
        have := (lookup_isSome_iff_mem_keys a k').mpr hk
        refine ⟨?_, (contains_eq_false_iff b _).mp (by simpa using hc)⟩
        cases hl : a.lookup k' with
        | none => simp [hl] at this
        | some x => exact ⟨x, rfl⟩
  · rintro ⟨⟨va, ha⟩, hb⟩
    refine Or.inr ⟨(k, va), mem_of_lookup a k va ha, ?_⟩
    simp [(contains_eq_false_iff b k).mpr hb]

/-- every record of `ddiff a b` touches a key on which `a` and `b` differ and sets it to `b`'s value -/
theorem ddiff_sound (a b : AList κ ν) (hwa : WF a) (hwb : WF b) (r : Rec κ ν) (hr : r ∈ ddiff a b) :
    a.lookup r.key ≠ b.lookup r.key ∧ r.value = b.lookup r.key := by
  cases r with
  | add k v =>
    obtain ⟨ha, hb⟩ := (mem_ddiff_add a b hwb k v).mp hr
    simp [Rec.key, Rec.value, ha, hb]
  | change k v =>
    obtain ⟨va, ha, hb, hne⟩ := (mem_ddiff_change a b hwa k v).mp hr
    simp [Rec.key, Rec.value, ha, hb, hne]
  | remove k =>
    obtain ⟨⟨va, ha⟩, hb⟩ := (mem_ddiff_remove a b k).mp hr
    simp [Rec.key, Rec.value, ha, hb]

/-- the kind of a record is determined by presence on both sides -/
theorem ddiff_kind (a b : AList κ ν) (hwa : WF a) (hwb : WF b) (r : Rec κ ν) (hr : r ∈ ddiff a b) :
    (r.kind = .add ↔ a.lookup r.key = none) ∧ (r.kind = .remove ↔ b.lookup r.key = none) := by
  cases r with
  | add k v =>
    obtain ⟨ha, hb⟩ := (mem_ddiff_add a b hwb k v).mp hr
    simp [Rec.key, Rec.kind, ha, hb]
  | change k v =>
    obtain ⟨va, ha, hb, hne⟩ := (mem_ddiff_change a b hwa k v).mp hr
    simp [Rec.key, Rec.kind, ha, hb]
  | remove k =>
    obtain ⟨⟨va, ha⟩, hb⟩ := (mem_ddiff_remove a b k).mp hr
    simp [Rec.key, Rec.kind, ha, hb]

theorem ddiff_complete (a b : AList κ ν) (hwa : WF a) (hwb : WF b) (k : κ)
    (h : a.lookup k ≠ b.lookup k) : ∃ r ∈ ddiff a b, r.key = k := by
  cases ha : a.lookup k with
  | none =>
    cases hb : b.lookup k with
    | none => simp [ha, hb] at h
    | some vb => exact ⟨.add k vb, (mem_ddiff_add a b hwb k vb).mpr ⟨ha, hb⟩, rfl⟩
  | some va =>
    cases hb : b.lookup k with
    | none => exact ⟨.remove k, (mem_ddiff_remove a b k).mpr ⟨⟨va, ha⟩, hb⟩, rfl⟩
    | some vb =>
      refine ⟨.change k vb, (mem_ddiff_change a b hwa k vb).mpr ⟨va, ha, hb, ?_⟩, rfl⟩
      intro e; subst e; simp [ha, hb] at h

theorem ddiff_uniq (a b : AList κ ν) (hwa : WF a) (hwb : WF b) : Uniq (ddiff a b) := by
  intro r hr r' hr' hk
  cases r with
  | add k v =>
    obtain ⟨ha, hb⟩ := (mem_ddiff_add a b hwb k v).mp hr
    cases r' with
    | add k' v' =>
      obtain ⟨_, hb'⟩ := (mem_ddiff_add a b hwb k' v').mp hr'
      simp only [Rec.key] at hk; subst hk
      rw [hb] at hb'; cases hb'; rfl
    | change k' v' =>
      obtain ⟨va, ha', _, _⟩ := (mem_ddiff_change a b hwa k' v').mp hr'
      simp only [Rec.key] at hk; subst hk
      rw [ha] at ha'; cases ha'
    | remove k' =>
      obtain ⟨⟨va, ha'⟩, _⟩ := (mem_ddiff_remove a b k').mp hr'
      simp only [Rec.key] at hk; subst hk
      rw [ha] at ha'; cases ha'
  | change k v =>
    obtain ⟨va, ha, hb, _⟩ := (mem_ddiff_change a b hwa k v).mp hr
    cases r' with
    | add k' v' =>
      obtain ⟨ha', _⟩ := (mem_ddiff_add a b hwb k' v').mp hr'
      simp only [Rec.key] at hk; subst hk
      rw [ha] at ha'; cases ha'
    | change k' v' =>
      obtain ⟨_, _, hb', _⟩ := (mem_ddiff_change a b hwa k' v').mp hr'
      simp only [Rec.key] at hk; subst hk
      rw [hb] at hb'; cases hb'; rfl
    | remove k' =>
      obtain ⟨_, hb'⟩ := (mem_ddiff_remove a b k').mp hr'
      simp only [Rec.key] at hk; subst hk
      rw [hb] at hb'; cases hb'
  | remove k =>
    obtain ⟨⟨va, ha⟩, hb⟩ := (mem_ddiff_remove a b k).mp hr
    cases r' with
    | add k' v' =>
      obtain ⟨ha', _⟩ := (mem_ddiff_add a b hwb k' v').mp hr'
      simp only [Rec.key] at hk; subst hk
      rw [ha] at ha'; cases ha'
    | change k' v' =>
      obtain ⟨_, _, hb', _⟩ := (mem_ddiff_change a b hwa k' v').mp hr'
      simp only [Rec.key] at hk; subst hk
      rw [hb] at hb'; cases hb'
    | remove k' =>
      simp only [Rec.key] at hk; subst hk; rfl

/-- pointwise semantics of patching with a dictdiffer diff -/
theorem patch_ddiff (a b d d' : AList κ ν) (hwa : WF a) (hwb : WF b)
    (h : patch (ddiff a b) d = some d') (k : κ) :
    d'.lookup k = if a.lookup k = b.lookup k then d.lookup k else b.lookup k := by
  by_cases e : a.lookup k = b.lookup k
  · simp only [e, if_true]
    apply patch_untouched _ _ _ _ h
    intro r hr hk
    have := (ddiff_sound a b hwa hwb r hr).1
    rw [hk] at this; exact this e
  · simp only [e, if_false]
    obtain ⟨r, hr, hk⟩ := ddiff_complete a b hwa hwb k e
    have := patch_touched _ _ _ r h (ddiff_uniq a b hwa hwb) hr
    rw [hk] at this
    rw [this, (ddiff_sound a b hwa hwb r hr).2, hk]

theorem ddiff_isEmpty (a b : AList κ ν) (hwa : WF a) (hwb : WF b) (h : (ddiff a b).isEmpty = true)
    (k : κ) : a.lookup k = b.lookup k := by
  apply Classical.byContradiction
  intro e
  obtain ⟨r, hr, _⟩ := ddiff_complete a b hwa hwb k e
  simp [List.isEmpty_iff] at h
  rw [h] at hr; simp at hr

theorem dictEq_lookup (x y : AList κ ν) (h : dictEq x y = true) (k : κ) : x.lookup k = y.lookup k := by
  unfold dictEq at h
  simp only [Bool.and_eq_true, List.all_eq_true, beq_iff_eq] at h
  by_cases hx : k ∈ keys x
  · exact h.1 k hx
  · by_cases hy : k ∈ keys y
    · exact h.2 k hy
    · rw [(lookup_eq_none_iff x k).mpr hx, (lookup_eq_none_iff y k).mpr hy]

end DvcData.Merge
