import DvcData.Model.Conc
/-!
# Finite abstraction of the concurrent-writers model

For one object name, what matters is (a) whether something is there, whether it matches its name
and whether it is write-protected, and (b) *which program counters are occupied* by the writers of
that name.  One writer's step acts on this abstraction as a finite function (`absStep`), and the
per-name invariant (`GoodAbs`) is a boolean function of the abstraction; that every step preserves
it is therefore a finite check (`absStep_good`), decided by the kernel — for any number of writers.
-/
namespace DvcData.Conc

/-- absent, or (matches its name, write-protected) -/
abbrev AObj := Option (Bool × Bool)

/-- occupancy flags of the writers of one name -/
structure Flags where
  u : Bool   -- somebody is between its probe's truncate and its unlink
  s : Bool   -- somebody has settled: saw a matching object, or renamed its own into place
  w : Bool   -- somebody has committed to replace the object and not yet renamed (or is lost: failed)
  n : Bool   -- somebody is not yet past its protect
  d : Bool   -- somebody is past its protect
  deriving DecidableEq, Repr

def Flags.or (a b : Flags) : Flags := ⟨a.u || b.u, a.s || b.s, a.w || b.w, a.n || b.n, a.d || b.d⟩
def Flags.none : Flags := ⟨false, false, false, false, false⟩

def flagsOfPc : Pc → Flags
  | .stat => ⟨false, false, false, true, false⟩
  | .read => ⟨false, false, false, true, false⟩
  | .discard => ⟨false, false, false, true, false⟩
  | .vprotect => ⟨false, true, false, true, false⟩
  | .probe => ⟨false, false, true, true, false⟩
  | .unlink => ⟨true, false, true, true, false⟩
  | .create => ⟨false, false, true, true, false⟩
  | .write => ⟨false, false, true, true, false⟩
  | .protect => ⟨false, true, false, true, false⟩
  | .save => ⟨false, true, false, false, true⟩
  | .done => ⟨false, true, false, false, true⟩
  | .restat => ⟨false, false, false, true, false⟩
  | .reread => ⟨false, false, false, true, false⟩
  | .rediscard => ⟨false, false, true, true, false⟩
  | .failed => ⟨false, false, true, true, false⟩

/-- the per-name invariant:
  * A  nobody in the truncate–unlink window → a protected object matches its name
  * H  somebody settled, nobody in that window → whatever is there matches its name
  * B  somebody settled, nobody replacing (or lost) → the object is there
  * C  everybody past protect (and somebody is) → the object is there and protected -/
def GoodAbs (o : AObj) (f : Flags) : Bool :=
  (f.u || match o with | some (g, true) => g | _ => true) &&
  (!f.s || f.u || match o with | some (g, _) => g | none => true) &&
  (f.w || !f.s || o.isSome) &&
  (f.n || !f.d || match o with | some (_, true) => true | _ => false)

/-- one writer's step on the abstraction.  `e`: the empty file matches this name; `last`: the copy
    loop has written everything (the step of `write` is the rename) -/
def absStep (root e last : Bool) (o : AObj) (pc : Pc) : AObj × Pc :=
  match pc with
  | .stat => match o with
    | none => (o, .probe)
    | some (_, true) => (o, .protect)
    | some (_, false) => (o, .read)
  | .read => match o with
    | none => (o, .probe)
    | some (true, _) => (o, .vprotect)
    | some (false, _) => (o, .discard)
  | .discard => (none, .probe)
  | .vprotect => (o.map fun x => (x.1, true), .protect)
  | .probe => match o with
    | some (g, true) => if root then (some (e, true), .unlink) else (some (g, true), .restat)
    | some (_, false) => (some (e, false), .unlink)
    | none => (some (e, false), .unlink)
  | .unlink => (none, .create)
  | .create => (o, .write)
  | .write => if last then (some (true, false), .protect) else (o, .write)
  | .protect => (o.map fun x => (x.1, true), .save)
  | .save => (o, .done)
  | .done => (o, .done)
  | .restat => match o with
    | none => (o, .failed)
    | some (_, true) => (o, .protect)
    | some (_, false) => (o, .reread)
  | .reread => match o with
    | none => (o, .failed)
    | some (true, _) => (o, .vprotect)
    | some (false, _) => (o, .rediscard)
  | .rediscard => (none, .failed)
  | .failed => (o, .failed)

/-- what any set of writers satisfies: in the window ⊆ replacing ⊆ not past protect; past protect ⊆ settled -/
def Flags.ok (f : Flags) : Bool := (!f.u || f.w) && (!f.w || f.n) && (!f.d || f.s)

theorem flagsOfPc_ok (pc : Pc) : (flagsOfPc pc).ok = true := by cases pc <;> rfl
theorem Flags.or_ok (a b : Flags) (ha : a.ok = true) (hb : b.ok = true) : (a.or b).ok = true := by
  obtain ⟨a1, a2, a3, a4, a5⟩ := a
  obtain ⟨b1, b2, b3, b4, b5⟩ := b
  revert ha hb
  cases a1 <;> cases a2 <;> cases a3 <;> cases a4 <;> cases a5 <;> cases b1 <;> cases b2 <;> cases b3 <;> cases b4 <;> cases b5 <;> decide

def bools : List Bool := [false, true]
def allPcs : List Pc := [.stat, .read, .discard, .vprotect, .probe, .unlink, .create, .write, .protect, .save, .done,
  .restat, .reread, .rediscard, .failed]
def allObjs : List AObj := [none, some (false, false), some (false, true), some (true, false), some (true, true)]
def allFlags : List Flags :=
  bools.flatMap fun a => bools.flatMap fun b => bools.flatMap fun c => bools.flatMap fun d => bools.map fun e => ⟨a, b, c, d, e⟩

theorem mem_bools (b : Bool) : b ∈ bools := by cases b <;> decide
theorem mem_allPcs (pc : Pc) : pc ∈ allPcs := by cases pc <;> decide
theorem mem_allObjs (o : AObj) : o ∈ allObjs := by rcases o with _ | ⟨_ | _, _ | _⟩ <;> decide
theorem mem_allFlags (f : Flags) : f ∈ allFlags := by
  obtain ⟨a, b, c, d, e⟩ := f
  simp only [allFlags, List.mem_flatMap, List.mem_map]
  exact ⟨a, mem_bools a, b, mem_bools b, c, mem_bools c, d, mem_bools d, e, mem_bools e, rfl⟩

/-- the whole finite table: 2·2·2 × 15 × 5 × 32 cases -/
def checkAll : Bool :=
  bools.all fun root => bools.all fun e => bools.all fun last => allPcs.all fun pc => allObjs.all fun o => allFlags.all fun fo =>
    !fo.ok || !GoodAbs o (fo.or (flagsOfPc pc)) ||
      GoodAbs (absStep root e last o pc).1 (fo.or (flagsOfPc (absStep root e last o pc).2))

theorem checkAll_true : checkAll = true := by decide +kernel

/-- **the finite core**: whatever the other writers of the name are doing (`fo`), a step of one
    writer preserves the per-name invariant -/
theorem absStep_good (root e last : Bool) (o : AObj) (pc : Pc) (fo : Flags) (hok : fo.ok = true)
    (h : GoodAbs o (fo.or (flagsOfPc pc)) = true) :
    GoodAbs (absStep root e last o pc).1 (fo.or (flagsOfPc (absStep root e last o pc).2)) = true := by
  have := checkAll_true
  simp only [checkAll, List.all_eq_true] at this
  have := this root (mem_bools _) e (mem_bools _) last (mem_bools _) pc (mem_allPcs _) o (mem_allObjs _) fo (mem_allFlags _)
  simpa [hok, h] using this

end DvcData.Conc
