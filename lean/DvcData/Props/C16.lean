import DvcData.Proofs.Conc
/-!
# C16 — concurrent writers cannot corrupt a shared store

`Good` is the invariant of a configuration (shared store + all writers); `stepAt_good` shows that
any step of any writer preserves it, `runSched_good` lifts that to every schedule (= every
interleaving, every prefix of it, any number of writers), and `final_correct` reads off the
property: once the writers of a name have finished, what they asked for is there, matches its
name and is write-protected.
-/
namespace DvcData.Conc
open DvcData Crash AList

variable (root : Bool) (H : Bytes → Oid)

/-! ### occupancy flags of a list of writers -/

def anyPc (P : Pc → Bool) (ths : List Thread) (oid : Oid) : Bool :=
  ths.any fun th => decide (th.oid = oid) && P (th.pc)

def flagsOf (ths : List Thread) (oid : Oid) : Flags :=
  ⟨anyPc (fun pc => (flagsOfPc pc).u) ths oid, anyPc (fun pc => (flagsOfPc pc).s) ths oid,
   anyPc (fun pc => (flagsOfPc pc).w) ths oid, anyPc (fun pc => (flagsOfPc pc).n) ths oid,
   anyPc (fun pc => (flagsOfPc pc).d) ths oid⟩

def contrib (th : Thread) (oid : Oid) : Flags := if th.oid = oid then flagsOfPc th.pc else Flags.none

theorem any_split {α} (f : α → Bool) : ∀ (l : List α) (i : Nat) (x : α), l[i]? = some x →
    l.any f = ((l.eraseIdx i).any f || f x)
  | [], i, x, h => by simp at h
  | a :: l, 0, x, h => by
    simp only [List.getElem?_cons_zero, Option.some.injEq] at h
    subst h
    simp [Bool.or_comm]
  | a :: l, i + 1, x, h => by
    simp only [List.getElem?_cons_succ] at h
    simp only [List.any_cons, List.eraseIdx_cons_succ, any_split f l i x h, Bool.or_assoc]

theorem any_set {α} (f : α → Bool) (l : List α) (i : Nat) (x y : α) (h : l[i]? = some x) :
    (l.set i y).any f = ((l.eraseIdx i).any f || f y) := by
  have hlt : i < l.length := by
    rcases Nat.lt_or_ge i l.length with h' | h'
    · exact h'
    · rw [List.getElem?_eq_none h'] at h; cases h
  have := any_split f (l.set i y) i y (by rw [List.getElem?_set_self hlt])
  rw [this, List.eraseIdx_set_eq]

theorem flagsOf_split (ths : List Thread) (i : Nat) (th : Thread) (oid : Oid) (h : ths[i]? = some th) :
    flagsOf ths oid = (flagsOf (ths.eraseIdx i) oid).or (contrib th oid) := by
  unfold flagsOf anyPc Flags.or contrib
  by_cases e : th.oid = oid
  · simp only [e, if_true]
    congr 1 <;> (rw [any_split _ ths i th h]; simp [e])
  · simp only [e, if_false, Flags.none, Bool.or_false]
    congr 1 <;> (rw [any_split _ ths i th h]; simp [e])

theorem flagsOf_set (ths : List Thread) (i : Nat) (th th' : Thread) (oid : Oid) (h : ths[i]? = some th) :
    flagsOf (ths.set i th') oid = (flagsOf (ths.eraseIdx i) oid).or (contrib th' oid) := by
  unfold flagsOf anyPc Flags.or contrib
  by_cases e : th'.oid = oid
  · simp only [e, if_true]
    congr 1 <;> (rw [any_set _ ths i th th' h]; simp [e])
  · simp only [e, if_false, Flags.none, Bool.or_false]
    congr 1 <;> (rw [any_set _ ths i th th' h]; simp [e])

theorem anyPc_mono (P Q : Pc → Bool) (hpq : ∀ pc, P pc = true → Q pc = true) (ths : List Thread) (oid : Oid)
    (h : anyPc P ths oid = true) : anyPc Q ths oid = true := by
  unfold anyPc at *
  rw [List.any_eq_true] at *
  obtain ⟨th, hm, hp⟩ := h
  refine ⟨th, hm, ?_⟩
  simp only [Bool.and_eq_true] at hp ⊢
  exact ⟨hp.1, hpq _ hp.2⟩

theorem flagsOf_ok (ths : List Thread) (oid : Oid) : (flagsOf ths oid).ok = true := by
  have h1 := anyPc_mono (fun pc => (flagsOfPc pc).u) (fun pc => (flagsOfPc pc).w) (by intro pc; cases pc <;> decide) ths oid
  have h2 := anyPc_mono (fun pc => (flagsOfPc pc).w) (fun pc => (flagsOfPc pc).n) (by intro pc; cases pc <;> decide) ths oid
  have h3 := anyPc_mono (fun pc => (flagsOfPc pc).d) (fun pc => (flagsOfPc pc).s) (by intro pc; cases pc <;> decide) ths oid
  unfold Flags.ok flagsOf
  simp only
  revert h1 h2 h3
  cases anyPc (fun pc => (flagsOfPc pc).u) ths oid <;> cases anyPc (fun pc => (flagsOfPc pc).w) ths oid <;>
    cases anyPc (fun pc => (flagsOfPc pc).n) ths oid <;> cases anyPc (fun pc => (flagsOfPc pc).d) ths oid <;>
    cases anyPc (fun pc => (flagsOfPc pc).s) ths oid <;> simp


/-! ### the invariant of a configuration -/

structure Good (c : Cfg) : Prop where
  /-- names are content hashes: what a writer writes hashes to the name it writes it under -/
  wf : ∀ (j : Nat) (th : Thread), c.2[j]? = some th → H th.chunks.flatten = th.oid
  /-- temp names are unique per writer -/
  tdist : ∀ (i j : Nat) (thi thj : Thread), c.2[i]? = some thi → c.2[j]? = some thj → thi.t = thj.t → i = j
  /-- a writer in its copy loop finds in its temp file exactly what it has written so far -/
  tmp : ∀ (j : Nat) (th : Thread), c.2[j]? = some th → th.pc = Pc.write → c.1.tmps.lookup th.t = some (th.chunks.take th.k).flatten
  /-- the per-name invariant of the finite abstraction, for every name -/
  abs : ∀ oid, GoodAbs (absObj H c.1 oid) (flagsOf c.2 oid) = true

theorem stepAt_good (c : Cfg) (i : Nat) (hg : Good H c) : Good H (stepAt root H c i) := by
  unfold stepAt
  cases hi : c.2[i]? with
  | none => exact hg
  | some th =>
    simp only
    have hlt : i < c.2.length := by
      rcases Nat.lt_or_ge i c.2.length with h' | h'
      · exact h'
      · rw [List.getElem?_eq_none h'] at hi; cases hi
    obtain ⟨hoid, ht, hch⟩ := step_oid root H c.1 th
    have hwf := hg.wf i th hi
    have htmp := hg.tmp i th hi
    have getset : ∀ j th', (c.2.set i (th.step root H c.1).2)[j]? = some th' →
        (j = i ∧ th' = (th.step root H c.1).2) ∨ (j ≠ i ∧ c.2[j]? = some th') := by
      intro j th' h
      rw [List.getElem?_set] at h
      by_cases e : i = j
      · subst e; simp [hlt] at h; exact Or.inl ⟨rfl, h.symm⟩
      · simp [e] at h; exact Or.inr ⟨fun e' => e e'.symm, h⟩
    refine ⟨?_, ?_, ?_, ?_⟩
    · intro j th' h
      rcases getset j th' h with ⟨_, rfl⟩ | ⟨_, h'⟩
      · rw [hch, hoid]; exact hwf
      · exact hg.wf j th' h'
    · intro a b tha thb ha hb hab
      rcases getset a tha ha with ⟨rfl, rfl⟩ | ⟨hne, ha'⟩ <;> rcases getset b thb hb with ⟨rfl, rfl⟩ | ⟨hne2, hb'⟩
      · rfl
      · rw [ht] at hab; exact hg.tdist _ _ _ _ hi hb' hab
      · rw [ht] at hab; exact hg.tdist _ _ _ _ ha' hi hab
      · exact hg.tdist _ _ _ _ ha' hb' hab
    · intro j th' h hw
      rcases getset j th' h with ⟨_, rfl⟩ | ⟨hne, h'⟩
      · exact step_own_tmp root H c.1 th htmp hw
      · have hne_t : th.t ≠ th'.t := fun e => hne (hg.tdist _ _ _ _ h' hi e.symm)
        rw [step_frame_tmps root H c.1 th th'.t hne_t]
        exact hg.tmp j th' h' hw
    · intro oid
      have hsplit := flagsOf_split c.2 i th oid hi
      have hset := flagsOf_set c.2 i th (th.step root H c.1).2 oid hi
      have hok := flagsOf_ok (c.2.eraseIdx i) oid
      have habs := hg.abs oid
      by_cases e : th.oid = oid
      · subst e
        obtain ⟨h1, h2⟩ := step_abs root H c.1 th hwf htmp
        rw [hset]
        simp only [contrib, hoid, if_true]
        rw [h1, h2]
        apply absStep_good _ _ _ _ _ _ hok
        rw [hsplit] at habs
        simpa [contrib] using habs
      · rw [hset]
        have : absObj H (th.step root H c.1).1 oid = absObj H c.1 oid := by
          unfold absObj; rw [step_frame_objs root H c.1 th oid e]
        rw [this]
        rw [hsplit] at habs
        simpa [contrib, hoid, e] using habs

theorem runSched_good (c : Cfg) (sched : List Nat) (hg : Good H c) : Good H (runSched root H c sched) := by
  unfold runSched
  induction sched generalizing c with
  | nil => exact hg
  | cons i r ih => exact ih _ (stepAt_good root H c i hg)


/-! ### reading the property off the invariant -/

theorem anyPc_eq_true (P : Pc → Bool) (ths : List Thread) (oid : Oid) :
    anyPc P ths oid = true ↔ ∃ (j : Nat) (th : Thread), ths[j]? = some th ∧ th.oid = oid ∧ P th.pc = true := by
  unfold anyPc
  rw [List.any_eq_true]
  constructor
  · rintro ⟨th, hm, hp⟩
    obtain ⟨j, hj⟩ := List.mem_iff_getElem?.mp hm
    simp only [Bool.and_eq_true, decide_eq_true_eq] at hp
    exact ⟨j, th, hj, hp.1, hp.2⟩
  · rintro ⟨j, th, hj, ho, hp⟩
    exact ⟨th, List.mem_iff_getElem?.mpr ⟨j, hj⟩, by simp [ho, hp]⟩

theorem anyPc_eq_false (P : Pc → Bool) (ths : List Thread) (oid : Oid)
    (h : ∀ (j : Nat) (th : Thread), ths[j]? = some th → th.oid = oid → P th.pc = false) : anyPc P ths oid = false := by
  cases hb : anyPc P ths oid with
  | false => rfl
  | true =>
    obtain ⟨j, th, hj, ho, hp⟩ := (anyPc_eq_true P ths oid).mp hb
    rw [h j th hj ho] at hp; cases hp

/-- where a writer starts: at the existence check (`add(..., check_exists=True)`), or straight at the copy
    (`check_exists=False`, what `transfer()` passes after a status query of its own made some time before) -/
def Pc.start (pc : Pc) : Prop := pc = Pc.stat ∨ pc = Pc.probe

/-- every writer about to start, over a store in which protected objects match their names
    (what C15 guarantees of any store these operations leave behind, crashes included) -/
theorem good_init (s : S) (ths : List Thread)
    (hpc : ∀ (j : Nat) (th : Thread), ths[j]? = some th → th.pc.start)
    (hwf : ∀ (j : Nat) (th : Thread), ths[j]? = some th → H th.chunks.flatten = th.oid)
    (htd : ∀ (i j : Nat) (thi thj : Thread), ths[i]? = some thi → ths[j]? = some thj → thi.t = thj.t → i = j)
    (hs : ∀ oid o, s.objs.lookup oid = some o → o.prot = true → H o.data = oid) : Good H (s, ths) := by
  refine ⟨hwf, htd, ?_, ?_⟩
  · intro j th h hw
    rcases hpc j th h with e | e <;> rw [e] at hw <;> cases hw
  · intro oid
    have hu : anyPc (fun pc => (flagsOfPc pc).u) ths oid = false :=
      anyPc_eq_false _ _ _ (fun j th h _ => by rcases hpc j th h with e | e <;> rw [e] <;> rfl)
    have hs' : anyPc (fun pc => (flagsOfPc pc).s) ths oid = false :=
      anyPc_eq_false _ _ _ (fun j th h _ => by rcases hpc j th h with e | e <;> rw [e] <;> rfl)
    have hd : anyPc (fun pc => (flagsOfPc pc).d) ths oid = false :=
      anyPc_eq_false _ _ _ (fun j th h _ => by rcases hpc j th h with e | e <;> rw [e] <;> rfl)
    unfold GoodAbs flagsOf absObj
    simp only [hu, hs', hd]
    cases hl : s.objs.lookup oid with
    | none => simp
    | some o =>
      obtain ⟨d, p⟩ := o
      cases p
      · simp
      · have := hs oid _ hl rfl
        simp [this]

/-- **C16 (final state).** In any configuration reachable under the invariant — i.e. after any
    schedule whatsoever — if the writers of a name have all finished successfully (and there is at
    least one), the object is present, matches its name and is write-protected. -/
theorem final_correct (c : Cfg) (hg : Good H c) (oid : Oid)
    (hall : ∀ (j : Nat) (th : Thread), c.2[j]? = some th → th.oid = oid → th.pc = Pc.done)
    (hex : ∃ (j : Nat) (th : Thread), c.2[j]? = some th ∧ th.oid = oid) :
    ∃ o, c.1.objs.lookup oid = some o ∧ H o.data = oid ∧ o.prot = true := by
  have habs := hg.abs oid
  have hn : anyPc (fun pc => (flagsOfPc pc).n) c.2 oid = false :=
    anyPc_eq_false _ _ _ (fun j th h ho => by rw [hall j th h ho]; rfl)
  have hu : anyPc (fun pc => (flagsOfPc pc).u) c.2 oid = false :=
    anyPc_eq_false _ _ _ (fun j th h ho => by rw [hall j th h ho]; rfl)
  have hd : anyPc (fun pc => (flagsOfPc pc).d) c.2 oid = true := by
    obtain ⟨j, th, h, ho⟩ := hex
    exact (anyPc_eq_true _ _ _).mpr ⟨j, th, h, ho, by rw [hall j th h ho]; rfl⟩
  have hs : anyPc (fun pc => (flagsOfPc pc).s) c.2 oid = true := by
    obtain ⟨j, th, h, ho⟩ := hex
    exact (anyPc_eq_true _ _ _).mpr ⟨j, th, h, ho, by rw [hall j th h ho]; rfl⟩
  unfold GoodAbs flagsOf absObj at habs
  simp only [hn, hu, hd, hs] at habs
  cases hl : c.1.objs.lookup oid with
  | none => simp [hl] at habs
  | some o =>
    obtain ⟨d, p⟩ := o
    cases p
    · simp [hl] at habs
    · simp [hl] at habs
      exact ⟨_, rfl, habs, rfl⟩

/-- **C16, every interleaving.** Start any number of writers (each with its own temp name, each
    writing bytes that hash to the name it writes them under) on a store whose protected objects
    match their names, and run *any* schedule.  Whenever the writers of a name have all finished
    successfully, the object is present, complete and write-protected. -/
theorem any_schedule_final_correct (s : S) (ths : List Thread) (sched : List Nat)
    (hpc : ∀ (j : Nat) (th : Thread), ths[j]? = some th → th.pc.start)
    (hwf : ∀ (j : Nat) (th : Thread), ths[j]? = some th → H th.chunks.flatten = th.oid)
    (htd : ∀ (i j : Nat) (thi thj : Thread), ths[i]? = some thi → ths[j]? = some thj → thi.t = thj.t → i = j)
    (hs : ∀ oid o, s.objs.lookup oid = some o → o.prot = true → H o.data = oid) (oid : Oid)
    (hall : ∀ (j : Nat) (th : Thread), (runSched root H (s, ths) sched).2[j]? = some th → th.oid = oid → th.pc = Pc.done)
    (hex : ∃ (j : Nat) (th : Thread), (runSched root H (s, ths) sched).2[j]? = some th ∧ th.oid = oid) :
    ∃ o, (runSched root H (s, ths) sched).1.objs.lookup oid = some o ∧ H o.data = oid ∧ o.prot = true :=
  final_correct H _ (runSched_good root H _ sched (good_init H s ths hpc hwf htd hs)) oid hall hex


/-! ### all writers succeed: wait-freedom, and no failure for a privileged process -/

def Pc.lost : Pc → Bool
  | .restat | .reread | .rediscard | .failed => true
  | _ => false

/-- a process that may write to read-only files is never refused: no writer ever leaves the main path -/
theorem step_root_not_lost (s : S) (th : Thread) (h : th.pc.lost = false) : (th.step true H s).2.pc.lost = false := by
  unfold Thread.step
  cases hpc : th.pc <;> rw [hpc] at h <;> simp only <;> (repeat' split) <;> first | rfl | (simp at h) | simp_all [Pc.lost]

theorem stepAt_root_not_lost (c : Cfg) (i : Nat)
    (h : ∀ (j : Nat) (th : Thread), c.2[j]? = some th → th.pc.lost = false) :
    ∀ (j : Nat) (th : Thread), (stepAt true H c i).2[j]? = some th → th.pc.lost = false := by
  unfold stepAt
  cases hi : c.2[i]? with
  | none => exact h
  | some thi =>
    intro j th hj
    simp only at hj
    rw [List.getElem?_set] at hj
    by_cases e : i = j
    · subst e
      have hlt : i < c.2.length := by
        rcases Nat.lt_or_ge i c.2.length with h' | h'
        · exact h'
        · rw [List.getElem?_eq_none h'] at hi; cases hi
      simp only [if_true, hlt] at hj
      injection hj with hj; subst hj
      exact step_root_not_lost H c.1 thi (h i thi hi)
    · simp only [e, if_false] at hj
      exact h j th hj

/-- **C16 (all succeed, privileged process).** Under any schedule no writer fails. -/
theorem root_never_fails (s : S) (ths : List Thread) (sched : List Nat)
    (hpc : ∀ (j : Nat) (th : Thread), ths[j]? = some th → th.pc.start) :
    ∀ (j : Nat) (th : Thread), (runSched true H (s, ths) sched).2[j]? = some th → th.pc ≠ Pc.failed := by
  have key : ∀ (sched : List Nat) (c : Cfg), (∀ (j : Nat) (th : Thread), c.2[j]? = some th → th.pc.lost = false) →
      ∀ (j : Nat) (th : Thread), (runSched true H c sched).2[j]? = some th → th.pc.lost = false := by
    intro sched
    induction sched with
    | nil => intro c h; exact h
    | cons i r ih => intro c h; exact ih _ (stepAt_root_not_lost H c i h)
  intro j th hj hf
  have := key sched (s, ths) (fun j th h => by
    have hst := hpc j th h
    unfold Pc.start at hst
    cases hst with
    | inl e => rw [e]; rfl
    | inr e => rw [e]; rfl) j th hj
  rw [hf] at this; cases this

/-- wait-freedom: every step of a writer that has not finished brings it strictly closer to finishing,
    whatever the others do (there is no lock and no retry loop in the protocol) -/
theorem step_measure_lt (s : S) (th : Thread) (h : th.pc.terminal = false) :
    (th.step root H s).2.measure < th.measure := by
  obtain ⟨oid, t, chunks, k, pc⟩ := th
  simp only at h
  cases pc <;> simp only [Thread.step]
  case done => simp [Pc.terminal] at h
  case failed => simp [Pc.terminal] at h
  case write =>
    cases hc : chunks[k]? with
    | none => simp only [Thread.measure]; omega
    | some c =>
      have : k < chunks.length := by
        rcases Nat.lt_or_ge k chunks.length with h' | h'
        · exact h'
        · rw [List.getElem?_eq_none h'] at hc; cases hc
      simp only [Thread.measure]; omega
  all_goals
    (repeat' split) <;> simp only [Thread.measure] <;> omega

/-- steps still owed by all writers together -/
def cfgMeasure (c : Cfg) : Nat := (c.2.map Thread.measure).sum

/-- a scheduled step is productive when it names a writer that has not finished -/
def productive (c : Cfg) (i : Nat) : Bool :=
  match c.2[i]? with
  | some th => !th.pc.terminal
  | none => false

def countProductive (c : Cfg) : List Nat → Nat
  | [] => 0
  | i :: r => (if productive c i then 1 else 0) + countProductive (stepAt root H c i) r

theorem sum_set (f : Thread → Nat) : ∀ (l : List Thread) (i : Nat) (x y : Thread), l[i]? = some x →
    ((l.set i y).map f).sum + f x = (l.map f).sum + f y
  | [], i, x, y, h => by simp at h
  | a :: l, 0, x, y, h => by
    simp only [List.getElem?_cons_zero, Option.some.injEq] at h
    subst h
    simp only [List.set_cons_zero, List.map_cons, List.sum_cons]; omega
  | a :: l, i + 1, x, y, h => by
    simp only [List.getElem?_cons_succ] at h
    have := sum_set f l i x y h
    simp only [List.set_cons_succ, List.map_cons, List.sum_cons]; omega

theorem stepAt_measure (c : Cfg) (i : Nat) :
    (if productive c i then 1 else 0) + cfgMeasure (stepAt root H c i) ≤ cfgMeasure c := by
  unfold productive stepAt cfgMeasure
  cases hi : c.2[i]? with
  | none => simp
  | some th =>
    simp only
    have hs := sum_set Thread.measure c.2 i th (th.step root H c.1).2 hi
    by_cases ht : th.pc.terminal = true
    · have : (th.step root H c.1).2 = th := by
        unfold Thread.step
        cases hpc : th.pc <;> rw [hpc] at ht <;> simp [Pc.terminal] at ht <;> simp
      rw [this] at hs ⊢
      simp only [ht, Bool.not_true, Bool.false_eq_true, if_false]; omega
    · have ht' : th.pc.terminal = false := by cases h : th.pc.terminal <;> simp_all
      have := step_measure_lt root H c.1 th ht'
      simp only [ht', Bool.not_false, if_true]; omega

/-- **C16 (termination).** Along any schedule the writers together perform at most
    `cfgMeasure` productive steps — one per remaining step of the protocol: nobody waits for
    anybody, so under any fair schedule every writer finishes. -/
theorem productive_steps_bounded (c : Cfg) (sched : List Nat) :
    countProductive root H c sched + cfgMeasure (runSched root H c sched) ≤ cfgMeasure c := by
  induction sched generalizing c with
  | nil => simp [countProductive, runSched]
  | cons i r ih =>
    have h1 := stepAt_measure root H c i
    have h2 := ih (stepAt root H c i)
    simp only [countProductive, runSched, List.foldl_cons] at *
    omega

/-! ### atomic placement: under a final name there is never a partial object -/

def Placed (s : S) : Prop := ∀ oid o, s.objs.lookup oid = some o → o.data = [] ∨ H o.data = oid

theorem step_placed (s : S) (th : Thread) (hp : Placed H s) (hwf : H th.chunks.flatten = th.oid)
    (htmp : th.pc = Pc.write → s.tmps.lookup th.t = some (th.chunks.take th.k).flatten) :
    Placed H (th.step root H s).1 := by
  intro oid o ho
  by_cases e : th.oid = oid
  · subst e
    unfold Thread.step at ho
    cases hpc : th.pc <;> rw [hpc] at ho <;> simp only at ho
    case write =>
      have hb := htmp hpc
      cases hc : th.chunks[th.k]? with
      | some c => rw [hc] at ho; simp only [lookup_append] at ho; exact hp _ _ ho
      | none =>
        rw [hc] at ho
        simp only [lookup_rename _ _ _ _ _ hb, if_true] at ho
        injection ho with ho; subst ho
        have hk : th.chunks.length ≤ th.k := by
          rcases Nat.lt_or_ge th.k th.chunks.length with h | h
          · rw [List.getElem?_eq_getElem h] at hc; cases hc
          · exact h
        right
        simp only [List.take_of_length_le hk, hwf]
    case probe =>
      cases hl : s.objs.lookup th.oid with
      | none =>
        rw [hl] at ho; simp only [lookup_probeCreate, if_true] at ho
        injection ho with ho; subst ho; exact Or.inl rfl
      | some o' =>
        rw [hl] at ho; simp only at ho
        split at ho
        · rw [hl] at ho; injection ho with ho; subst ho; exact hp _ _ hl
        · simp only [lookup_probeCreate, if_true] at ho
          injection ho with ho; subst ho; exact Or.inl rfl
    case vprotect =>
      simp only [lookup_protect, if_true] at ho
      cases hl : s.objs.lookup th.oid with
      | none => rw [hl] at ho; cases ho
      | some o' => rw [hl] at ho; simp only [Option.map_some] at ho; injection ho with ho; subst ho; exact hp _ o' hl
    case protect =>
      simp only [lookup_protect, if_true] at ho
      cases hl : s.objs.lookup th.oid with
      | none => rw [hl] at ho; cases ho
      | some o' => rw [hl] at ho; simp only [Option.map_some] at ho; injection ho with ho; subst ho; exact hp _ o' hl
    all_goals
      first
      | (simp only [lookup_remove, lookup_probeUnlink, if_true] at ho; cases ho)
      | (simp only [lookup_saveRow, lookup_tmpCreate] at ho; exact hp _ _ ho)
      | (revert ho; (repeat' split) <;> intro ho <;> exact hp _ _ ho)
  · rw [step_frame_objs root H s th oid e] at ho
    exact hp _ _ ho

/-- **C16 (safety at every point of every interleaving).** Whatever the schedule and wherever it
    is cut, every file under a final name is either empty (a reflink probe in flight, or its leftover)
    or complete and matching its name: data only ever arrives by an atomic rename of a complete temp
    file, and writers never share a temp file. -/
theorem any_schedule_placed (c : Cfg) (sched : List Nat) (hg : Good H c) (hp : Placed H c.1) :
    Placed H (runSched root H c sched).1 := by
  unfold runSched
  induction sched generalizing c with
  | nil => exact hp
  | cons i r ih =>
    apply ih _ (stepAt_good root H c i hg)
    unfold stepAt
    cases hi : c.2[i]? with
    | none => exact hp
    | some th => exact step_placed root H c.1 th hp (hg.wf i th hi) (hg.tmp i th hi)


/-! ### one writer alone: re-running after a crash recovers (the C15 clause, as a theorem) -/

/-- `n` steps of a writer that is alone on the store -/
def solo : Nat → S × Thread → S × Thread
  | 0, c => c
  | n + 1, c => solo n (c.2.step root H c.1)

theorem step_terminal_id (s : S) (th : Thread) (h : th.pc.terminal = true) : th.step root H s = (s, th) := by
  unfold Thread.step
  cases hpc : th.pc <;> rw [hpc] at h <;> simp [Pc.terminal] at h <;> rfl

theorem measure_zero_terminal (th : Thread) (h : th.measure = 0) : th.pc.terminal = true := by
  unfold Thread.measure at h
  cases hpc : th.pc <;> rw [hpc] at h <;> simp only [] at h <;> first | rfl | omega

theorem solo_succ (n : Nat) (s : S) (th : Thread) :
    solo root H (n + 1) (s, th) = solo root H n ((th.step root H s).1, (th.step root H s).2) := rfl

theorem solo_terminal : ∀ (n : Nat) (s : S) (th : Thread), th.measure ≤ n → (solo root H n (s, th)).2.pc.terminal = true := by
  intro n
  induction n with
  | zero => intro s th h; exact measure_zero_terminal th (by omega)
  | succ n ih =>
    intro s th h
    rw [solo_succ]
    by_cases ht : th.pc.terminal = true
    · rw [step_terminal_id root H s th ht]
      apply ih s th
      have : th.measure = 0 := by
        unfold Thread.measure
        cases hpc : th.pc <;> rw [hpc] at ht <;> simp [Pc.terminal] at ht <;> rfl
      omega
    · have ht' : th.pc.terminal = false := by cases h' : th.pc.terminal <;> simp_all
      have := step_measure_lt root H s th ht'
      exact ih _ _ (by omega)

theorem solo_eq_runSched : ∀ (n : Nat) (s : S) (th : Thread),
    runSched root H (s, [th]) (List.replicate n 0) = ((solo root H n (s, th)).1, [(solo root H n (s, th)).2]) := by
  intro n
  induction n with
  | zero => intro s th; rfl
  | succ n ih =>
    intro s th
    rw [solo_succ]
    have : stepAt root H (s, [th]) 0 = ((th.step root H s).1, [(th.step root H s).2]) := by simp [stepAt]
    simp only [List.replicate_succ, runSched, List.foldl_cons]
    rw [this]
    exact ih _ _

/-- a writer that is alone is never refused: when it probes, the name is free -/
def SoloOK (c : S × Thread) : Prop := c.2.pc.lost = false ∧ (c.2.pc = Pc.probe → c.1.objs.lookup c.2.oid = none)

theorem step_soloOK (s : S) (th : Thread) (h : SoloOK (s, th)) : SoloOK (th.step root H s) := by
  obtain ⟨hl, hp⟩ := h
  simp only at hl hp
  unfold Thread.step SoloOK
  cases hpc : th.pc <;> rw [hpc] at hl <;> simp only [] <;> try (simp [Pc.lost] at hl; done)
  case stat =>
    cases hlk : s.objs.lookup th.oid with
    | none => simp [Pc.lost, hlk]
    | some o => by_cases ho : o.prot = true <;> simp [Pc.lost, ho]
  case read =>
    cases hlk : s.objs.lookup th.oid with
    | none => simp [Pc.lost, hlk]
    | some o => by_cases ho : H o.data = th.oid <;> simp [Pc.lost, ho]
  case discard => simp [Pc.lost, lookup_remove]
  case probe => simp [hp hpc, Pc.lost]
  case write => cases th.chunks[th.k]? <;> simp [Pc.lost, hpc]
  all_goals simp [Pc.lost, hpc]

theorem solo_soloOK : ∀ (n : Nat) (c : S × Thread), SoloOK c → SoloOK (solo root H n c) := by
  intro n
  induction n with
  | zero => intro c h; exact h
  | succ n ih => intro c h; exact ih _ (step_soloOK root H c.1 c.2 h)


/-- **C15 (re-running recovers), as a theorem of the step model.** Take *any* store in which protected objects
    match their names — which is every store a crash can leave behind (`Crash.prefix_crash_safe`): whatever else
    is under the object's name (nothing, an empty probe leftover, garbage, a complete unprotected copy), running
    the add again to completion succeeds and leaves the object present, matching its name and write-protected —
    privileged or not. -/
theorem rerun_recovers (s : S) (th : Thread) (hpc : th.pc = Pc.stat) (hwf : H th.chunks.flatten = th.oid)
    (hs : ∀ oid o, s.objs.lookup oid = some o → o.prot = true → H o.data = oid) (n : Nat) (hn : th.measure ≤ n) :
    (solo root H n (s, th)).2.pc = Pc.done ∧
    ∃ o, (solo root H n (s, th)).1.objs.lookup th.oid = some o ∧ H o.data = th.oid ∧ o.prot = true := by
  have hterm := solo_terminal root H n s th hn
  have hok := solo_soloOK root H n (s, th) ⟨by rw [hpc]; rfl, by rw [hpc]; intro h; cases h⟩
  have hdone : (solo root H n (s, th)).2.pc = Pc.done := by
    have hl := hok.1
    cases hp : (solo root H n (s, th)).2.pc <;> rw [hp] at hterm hl <;>
      first | rfl | (simp [Pc.terminal, Pc.lost] at hterm hl)
  refine ⟨hdone, ?_⟩
  have hgood : Good H (s, [th]) := by
    apply good_init H s [th] ?_ ?_ ?_ hs
    · intro j t h
      cases j with
      | zero => simp at h; rw [← h]; exact Or.inl hpc
      | succ j => simp at h
    · intro j t h
      cases j with
      | zero => simp at h; rw [← h]; exact hwf
      | succ j => simp at h
    · intro i j ti tj hi hj _
      cases i <;> cases j <;> simp at hi hj <;> rfl
  have hrun := runSched_good root H (s, [th]) (List.replicate n 0) hgood
  rw [solo_eq_runSched] at hrun
  have hoid : (solo root H n (s, th)).2.oid = th.oid := by
    have : ∀ (n : Nat) (c : S × Thread), (solo root H n c).2.oid = c.2.oid := by
      intro n
      induction n with
      | zero => intro c; rfl
      | succ n ih =>
        intro c
        show (solo root H n (c.2.step root H c.1)).2.oid = c.2.oid
        rw [ih]; exact (step_oid root H c.1 c.2).1
    exact this n (s, th)
  have := final_correct H _ hrun th.oid
    (by
      intro j t h ho
      cases j with
      | zero => simp at h; rw [← h]; exact hdone
      | succ j => simp at h)
    ⟨0, _, rfl, hoid⟩
  exact this

/-! ### non-vacuity, and the schedule of the known finding -/

/-- a toy content hash for the examples below -/
def toyH : Bytes → Oid := fun b => if b = [1] then "a" else "z"

def three : List Thread :=
  [{ oid := "a", t := (0, 0), chunks := [[1]] }, { oid := "a", t := (1, 0), chunks := [[1]] }, { oid := "a", t := (2, 0), chunks := [[1]] }]

/-- the hypotheses of `any_schedule_final_correct` are satisfiable, and a round-robin schedule of three
    writers of one object ends with everybody done and the object complete and protected -/
theorem three_idx (j : Nat) (th : Thread) (h : three[j]? = some th) :
    (j = 0 ∧ th = { oid := "a", t := (0, 0), chunks := [[1]] }) ∨ (j = 1 ∧ th = { oid := "a", t := (1, 0), chunks := [[1]] }) ∨
    (j = 2 ∧ th = { oid := "a", t := (2, 0), chunks := [[1]] }) := by
  match j, h with
  | 0, h => simp [three] at h; exact Or.inl ⟨rfl, h.symm⟩
  | 1, h => simp [three] at h; exact Or.inr (Or.inl ⟨rfl, h.symm⟩)
  | 2, h => simp [three] at h; exact Or.inr (Or.inr ⟨rfl, h.symm⟩)
  | n + 3, h => simp [three] at h

example : Good toyH (({} : S), three) := by
  refine good_init toyH {} three ?_ ?_ ?_ (by intro oid o h; simp [AList.lookup] at h)
  · intro j th h; rcases three_idx j th h with ⟨_, rfl⟩ | ⟨_, rfl⟩ | ⟨_, rfl⟩ <;> exact Or.inl rfl
  · intro j th h; rcases three_idx j th h with ⟨_, rfl⟩ | ⟨_, rfl⟩ | ⟨_, rfl⟩ <;> decide
  · intro i j thi thj hi hj ht
    rcases three_idx i thi hi with ⟨rfl, rfl⟩ | ⟨rfl, rfl⟩ | ⟨rfl, rfl⟩ <;>
      rcases three_idx j thj hj with ⟨rfl, rfl⟩ | ⟨rfl, rfl⟩ | ⟨rfl, rfl⟩ <;> first | rfl | (simp at ht)

example : ((runSched true toyH (({} : S), three) (List.replicate 12 [0, 1, 2]).flatten).2.map (·.pc)) = [.done, .done, .done] ∧
    (runSched true toyH (({} : S), three) (List.replicate 12 [0, 1, 2]).flatten).1.objs = [("a", { data := [1], prot := true })] := by
  decide

/-- the known finding (unprivileged writers): writer 0 finds the name absent; writer 1 adds the object; writer 2
    (which also found it absent) truncates it while writer 1 protects it; writer 0's probe is refused, writer 2
    unlinks, writer 0's re-check finds nothing: it fails, although the others go on to complete the object. -/
example : ((runSched false toyH (({} : S), three) [0, 2, 1, 1, 1, 1, 1, 1, 2, 1, 0, 2, 0]).2.map (·.pc)) =
    [.failed, .save, .create] := by decide

/-- the same schedule in a privileged process: nobody fails (the probe truncates instead) -/
example : ((runSched true toyH (({} : S), three) [0, 2, 1, 1, 1, 1, 1, 1, 2, 1, 0, 2, 0]).2.map (·.pc)) =
    [.create, .save, .create] := by decide

end DvcData.Conc
