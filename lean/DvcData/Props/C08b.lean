import DvcData.Model.IndexSave
import DvcData.Props.C03
import DvcData.Props.C09b
/-
  C08 (last clause) / C01: "skipping unchanged hashed sub-trees never hides a change".

  `index/save.py` gives every directory entry the identifier of the listing of the files below it
  (`saveDirs_merkle`); for two indexes whose directory identifiers are derived that way (`Merkle`),
  the shortcut of `_diff` (`skipOf`: hash-only, unchanged directory identifier) hides nothing: at every
  key below the skipped node at which either side holds a file, both sides hold a file and the two hashes
  are classified `unchanged` (`skip_sound`).  The hypotheses are the ones C03 proves of the listing:
  a listing is determined by its bytes (`asBytes_injective`), and `H` does not collide on the two
  listings compared.
-/
namespace DvcData.IndexSave
open DvcData Path MetaInfo IndexDiff Tree List Json

/-- the parts of index keys do not contain the separator (they survive `"/".join`) -/
def KeysOK (idx : Index) : Prop := ∀ e ∈ idx, ∀ p ∈ e.1, sep ∉ p

/-- directory identifiers are derived from the file entries below them -/
structure Merkle (H : List Char → Str) (idx : Index) : Prop where
  /-- an entry whose hash is a directory identifier carries the identifier of the listing below it -/
  digest : ∀ k e h, idx.lookup k = some e → e.hashInfo = some h → h.isdir = true →
    h.value = some (Tree.digest H (treeBelow idx k))
  /-- ... under a proper algorithm name -/
  named : ∀ k e h, idx.lookup k = some e → e.hashInfo = some h → h.isdir = true →
    ∃ n, h.name = some n ∧ n ≠ [] ∧ n ≠ relpathKey
  /-- ... which the hashed files below it share (as after `Tree.from_list(.., hash_name)` or `md5()`) -/
  uniform : ∀ k e h, idx.lookup k = some e → e.hashInfo = some h → h.isdir = true →
    ∀ r e' h', idx.lookup (k ++ r) = some e' → isDirEntry e' = false → e'.hashInfo = some h' →
      h'.truthy = true → h'.name = h.name

/-! ### membership in `treeBelow` -/

theorem stripPrefix_eq_some (k k' r : Key) : stripPrefix k k' = some r ↔ k' = k ++ r := by
  induction k generalizing k' with
  | nil => simp only [stripPrefix, Option.some.injEq, nil_append]
  | cons p ps ih =>
    cases k' with
    | nil => simp [stripPrefix]
    | cons q qs =>
      simp only [stripPrefix, cons_append, cons.injEq]
      by_cases e : p = q
      · subst e; simp [ih]
      · have e' : ¬ q = p := fun h => e h.symm
        simp [e, e']

theorem mem_treeBelow (idx : Index) (k r : Key) (v : TVal) :
    (r, v) ∈ treeBelow idx k ↔
      ∃ e, (k ++ r, e) ∈ idx ∧ r ≠ [] ∧ isDirEntry e = false ∧ v = (e.mt, e.hashInfo) := by
  unfold treeBelow
  rw [mem_filterMap]
  constructor
  · rintro ⟨⟨k', e⟩, hm, h⟩
    simp only at h
    split at h
    · rename_i p rest hs
      have hk := (stripPrefix_eq_some k k' (p :: rest)).mp hs
      cases hd : isDirEntry e with
      | true => simp [hd] at h
      | false =>
        simp only [hd, Bool.false_eq_true, if_false, Option.some.injEq, Prod.mk.injEq] at h
        obtain ⟨h1, h2⟩ := h
        subst h1; subst hk
        exact ⟨e, hm, by simp, hd, h2.symm⟩
    · cases h
  · rintro ⟨e, hm, hne, hd, rfl⟩
    refine ⟨(k ++ r, e), hm, ?_⟩
    simp only
    have hs : stripPrefix k (k ++ r) = some r := (stripPrefix_eq_some k (k ++ r) r).mpr rfl
    cases r with
    | nil => exact absurd rfl hne
    | cons p rest => simp [hs, hd]

/-! ### hashes with one algorithm name are told apart by the listing -/

theorem hiToDict_falsy (a : Option HashInfo) (h : hiTruthy a = false) : hiToDict a = [] := by
  cases a with
  | none => rfl
  | some x => simp only [hiTruthy] at h; simp [hiToDict, h]

theorem hiToDict_truthy (x : HashInfo) (n : Str) (hn : n ≠ []) (ht : x.truthy = true) (hx : x.name = some n) :
    ∃ v, x.value = some v ∧
      hiToDict (some x) = [((if n = dos2unixName then md5Name else n), JVal.str v)] := by
  unfold HashInfo.truthy at ht
  cases hv : x.value with
  | none => simp [hv] at ht
  | some v =>
    simp only [hv] at ht
    refine ⟨v, rfl, ?_⟩
    have ht' : x.truthy = true := by unfold HashInfo.truthy; simp [hv, ht]
    unfold hiToDict
    simp only [ht', Bool.not_true, Bool.false_eq_true, if_false, hx, Option.some.injEq]
    by_cases hd : n = dos2unixName
    · simp [hd, hv]
    · simp only [hd, if_false, HashInfo.toDict, hx, hv]
      have h1 : v.isEmpty = false := by simpa using ht
      have h2 : n.isEmpty = false := by cases n <;> simp_all
      simp [h1, h2]

/-- two hashes that may only carry the name `n` and serialise alike are classified `unchanged` -/
theorem diffHashInfo_of_dict (a b : Option HashInfo) (n : Str) (hn : n ≠ [])
    (ha : ∀ x, a = some x → x.truthy = true → x.name = some n)
    (hb : ∀ x, b = some x → x.truthy = true → x.name = some n)
    (hd : hiToDict a = hiToDict b) : diffHashInfo a b = .unchanged := by
  cases hta : hiTruthy a with
  | true =>
    cases a with
    | none => simp [hiTruthy] at hta
    | some x =>
      simp only [hiTruthy] at hta
      obtain ⟨v, hv, hdx⟩ := hiToDict_truthy x n hn hta (ha x rfl hta)
      cases htb : hiTruthy b with
      | false => rw [hiToDict_falsy b htb, hdx] at hd; cases hd
      | true =>
        cases b with
        | none => simp [hiTruthy] at htb
        | some y =>
          simp only [hiTruthy] at htb
          obtain ⟨w, hw, hdy⟩ := hiToDict_truthy y n hn htb (hb y rfl htb)
          rw [hdx, hdy] at hd
          have hvw : v = w := by simpa using hd
          have hxy : x = y := by
            cases x; cases y
            simp only [HashInfo.mk.injEq]
            simp only at hv hw
            have h1 := ha _ rfl hta
            have h2 := hb _ rfl htb
            simp only at h1 h2
            rw [h1, h2, hv, hw, hvw]; exact ⟨rfl, rfl⟩
          rw [hxy]; exact diffHashInfo_refl _
  | false =>
    have hda := hiToDict_falsy a hta
    cases htb : hiTruthy b with
    | true =>
      cases b with
      | none => simp [hiTruthy] at htb
      | some y =>
        simp only [hiTruthy] at htb
        obtain ⟨w, _, hdy⟩ := hiToDict_truthy y n hn htb (hb y rfl htb)
        rw [hda, hdy] at hd; cases hd
    | false =>
      unfold diffHashInfo
      cases a <;> cases b <;> simp [hta, htb]

/-! ### the listing of a Merkle index is determined by the identifier -/

theorem isdir_truthy (h : HashInfo) (hd : h.isdir = true) : h.truthy = true := by
  unfold HashInfo.isdir at hd
  unfold HashInfo.truthy
  cases hv : h.value with
  | none => simp [hv] at hd
  | some v => simp only [hv, Bool.and_eq_true] at hd ⊢; exact hd.1

theorem keyOK_rel (idx : Index) (hk : KeysOK idx) (k r : Key) (e : Entry) (hm : (k ++ r, e) ∈ idx) (hne : r ≠ []) :
    KeyOK r :=
  ⟨hne, fun p hp => hk _ hm p (by simp [hp])⟩

theorem md5Name_ne_relpath : md5Name ≠ relpathKey := by decide

/-- every entry of the listing below a directory identifier has a serialisable hash name -/
theorem hashNameOK_below (H : List Char → Str) (idx : Index) (hwf : AList.WF idx) (hm : Merkle H idx)
    (k : Key) (e : Entry) (h : HashInfo) (hl : idx.lookup k = some e) (hh : e.hashInfo = some h)
    (hd : h.isdir = true) : ∀ x ∈ treeBelow idx k, HashNameOK x.2.2 := by
  rintro ⟨r, v⟩ hx
  obtain ⟨e', hm', _, hde, rfl⟩ := (mem_treeBelow idx k r v).mp hx
  obtain ⟨n, hn, hne, hnr⟩ := hm.named k e h hl hh hd
  intro n' v' hdict
  simp only at hdict
  cases hte : hiTruthy e'.hashInfo with
  | false => rw [hiToDict_falsy _ hte] at hdict; cases hdict
  | true =>
    cases hh' : e'.hashInfo with
    | none => simp [hh', hiTruthy] at hte
    | some y =>
      simp only [hh', hiTruthy] at hte
      have hname := hm.uniform k e h hl hh hd r e' y (AList.lookup_of_mem idx hwf _ _ hm') hde hh' hte
      rw [hn] at hname
      obtain ⟨w, _, hdy⟩ := hiToDict_truthy y n hne hte hname
      rw [hh', hdy] at hdict
      simp only [cons.injEq, Prod.mk.injEq, and_true] at hdict
      by_cases hdd : n = dos2unixName
      · simp only [hdd, if_true] at hdict; rw [← hdict.1]; exact md5Name_ne_relpath
      · simp only [hdd, if_false] at hdict; rw [← hdict.1]; exact hnr

/-- one direction of the comparison: a file on side `A` below `k` has a twin on side `B` -/
theorem twin_of_pairs (A B : Index) (hwb : AList.WF B) (hka : KeysOK A) (hkb : KeysOK B) (k r : Key) (ea : Entry)
    (hp : pairs (treeBelow A k) ~ pairs (treeBelow B k))
    (hma : (k ++ r, ea) ∈ A) (hne : r ≠ []) (hda : isDirEntry ea = false) :
    ∃ eb, B.lookup (k ++ r) = some eb ∧ isDirEntry eb = false ∧ hiToDict ea.hashInfo = hiToDict eb.hashInfo := by
  have h1 : (joinC r, hiToDict ea.hashInfo) ∈ pairs (treeBelow A k) := by
    unfold pairs
    exact mem_map.mpr ⟨(r, (ea.mt, ea.hashInfo)), (mem_treeBelow A k r _).mpr ⟨ea, hma, hne, hda, rfl⟩, rfl⟩
  have h2 := hp.mem_iff.mp h1
  unfold pairs at h2
  obtain ⟨⟨r', v'⟩, hm', heq⟩ := mem_map.mp h2
  obtain ⟨eb, hmb, hne', hdb, rfl⟩ := (mem_treeBelow B k r' v').mp hm'
  simp only [Prod.mk.injEq] at heq
  have hr : r' = r := joinC_injective r' r (keyOK_rel B hkb k r' eb hmb hne') (keyOK_rel A hka k r ea hma hne) heq.1
  subst hr
  exact ⟨eb, AList.lookup_of_mem B hwb _ _ hmb, hdb, heq.2.symm⟩

theorem append_right_cancel' {α : Type} (a b s : List α) (h : a ++ s = b ++ s) : a = b :=
  List.append_cancel_right h

/-- **C08: the unchanged-sub-tree shortcut hides no change.**  When `_diff` skips the branch below `k`
    (hash-only comparison, unchanged entries not requested, the entry at `k` classified unchanged and
    carrying a directory identifier), then at every key strictly below `k` at which either index holds a
    file, *both* hold a file and `_diff_entry` classifies the pair as unchanged - for indexes whose
    directory identifiers are derived from the files below them (`Merkle`, what `save` establishes),
    provided `H` does not collide on the two listings. -/
theorem skip_sound (H : List Char → Str) (o : Opts) (old new : Index) (k : Key)
    (hwo : AList.WF old) (hwn : AList.WF new) (hko : KeysOK old) (hkn : KeysOK new)
    (hmo : Merkle H old) (hmn : Merkle H new) (hmeta : o.metaOnly = false)
    (hH : H (asBytes false (treeBelow old k)) = H (asBytes false (treeBelow new k)) →
      asBytes false (treeBelow old k) = asBytes false (treeBelow new k))
    (hskip : skipOf o (some old) (some new) k = true) :
    ∀ r, r ≠ [] →
      ((∃ e, old.lookup (k ++ r) = some e ∧ isDirEntry e = false) ∨
       (∃ e, new.lookup (k ++ r) = some e ∧ isDirEntry e = false)) →
      ∃ eo en, old.lookup (k ++ r) = some eo ∧ new.lookup (k ++ r) = some en ∧
        isDirEntry eo = false ∧ isDirEntry en = false ∧
        diffEntry o (some eo) (some en) = .unchanged := by
  -- unpack the shortcut's condition
  unfold skipOf at hskip
  simp only [Bool.and_eq_true, Bool.not_eq_true', decide_eq_true_eq] at hskip
  obtain ⟨⟨⟨hho, _⟩, hun⟩, hdirhash⟩ := hskip
  rw [IndexCheckout.entryOf_lookup, IndexCheckout.entryOf_lookup] at hun
  rw [IndexCheckout.entryOf_lookup] at hdirhash
  cases hlo : old.lookup k with
  | none => simp [hlo] at hdirhash
  | some eo0 =>
    simp only [hlo, Option.map_some] at hdirhash hun
    have hfh : (fixMeta eo0).hashInfo = eo0.hashInfo := by
      unfold fixMeta; split <;> (try split) <;> rfl
    rw [hfh] at hdirhash
    cases hoh : eo0.hashInfo with
    | none => simp [hoh] at hdirhash
    | some h =>
      simp only [hoh] at hdirhash
      have hdir : h.isdir = true := hdirhash
      have htr := isdir_truthy h hdir
      -- the new side carries the same identifier
      have hnew : ∃ en0, new.lookup k = some en0 ∧ en0.hashInfo = some h := by
        unfold diffEntry decide3 at hun
        simp only [hmeta, Bool.false_eq_true, if_false, hho, if_true] at hun
        cases hln : new.lookup k with
        | none =>
          simp only [hln, Option.map_none, Option.bind_some, Option.bind_none, hfh, hoh] at hun
          unfold diffHashInfo at hun
          simp [hiTruthy, htr] at hun
        | some en0 =>
          refine ⟨en0, rfl, ?_⟩
          have hfn : (fixMeta en0).hashInfo = en0.hashInfo := by
            unfold fixMeta; split <;> (try split) <;> rfl
          simp only [hln, Option.map_some, Option.bind_some, hfh, hfn, hoh] at hun
          have ht2 := diffHashInfo_unchanged_truthy _ _ hun
          simp only [hiTruthy, htr] at ht2
          cases hnh : en0.hashInfo with
          | none => simp [hnh] at ht2
          | some h2 =>
            simp only [hnh] at hun ht2
            unfold diffHashInfo at hun
            simp only [hiTruthy, htr, ← ht2, Bool.not_true, Bool.and_false, Bool.false_eq_true, if_false,
              Bool.and_self, Bool.true_and] at hun
            by_cases heq : hiEq h h2 = true
            · unfold hiEq at heq; simp only [decide_eq_true_eq] at heq; rw [heq]
            · simp [heq] at hun
      obtain ⟨en0, hln, hnh⟩ := hnew
      -- equal identifiers, equal listings
      have hv1 := hmo.digest k eo0 h hlo hoh hdir
      have hv2 := hmn.digest k en0 h hln hnh hdir
      rw [hv1] at hv2
      have hdig : Tree.digest H (treeBelow old k) = Tree.digest H (treeBelow new k) := by simpa using hv2
      unfold Tree.digest at hdig
      have hbytes := hH (append_right_cancel' _ _ _ hdig)
      have hp : pairs (treeBelow old k) ~ pairs (treeBelow new k) :=
        asBytes_injective _ _ (hashNameOK_below H old hwo hmo k eo0 h hlo hoh hdir)
          (hashNameOK_below H new hwn hmn k en0 h hln hnh hdir) hbytes
      obtain ⟨n, hn, hne, _⟩ := hmo.named k eo0 h hlo hoh hdir
      -- the verdict on a pair of twins
      have verdict : ∀ r (eo en : Entry), old.lookup (k ++ r) = some eo → new.lookup (k ++ r) = some en →
          isDirEntry eo = false → isDirEntry en = false → hiToDict eo.hashInfo = hiToDict en.hashInfo →
          diffEntry o (some eo) (some en) = .unchanged := by
        intro r eo en h1 h2 hd1 hd2 hd
        unfold diffEntry decide3
        simp only [hmeta, Bool.false_eq_true, if_false, hho, if_true, Option.bind_some]
        refine diffHashInfo_of_dict _ _ n hne ?_ ?_ hd
        · intro x hx hxt
          rw [← hn]; exact hmo.uniform k eo0 h hlo hoh hdir r eo x h1 hd1 hx hxt
        · intro x hx hxt
          rw [← hn]; exact hmn.uniform k en0 h hln hnh hdir r en x h2 hd2 hx hxt
      intro r hr hex
      rcases hex with ⟨eo, hl, hd⟩ | ⟨en, hl, hd⟩
      · obtain ⟨en, hl2, hd2, hdict⟩ := twin_of_pairs old new hwn hko hkn k r eo hp
          (AList.mem_of_lookup old _ _ hl) hr hd
        exact ⟨eo, en, hl, hl2, hd, hd2, verdict r eo en hl hl2 hd hd2 hdict⟩
      · obtain ⟨eo, hl2, hd2, hdict⟩ := twin_of_pairs new old hwo hkn hko k r en hp.symm
          (AList.mem_of_lookup new _ _ hl) hr hd
        exact ⟨eo, en, hl2, hl, hd2, hd, verdict r eo en hl2 hl hd2 hd hdict.symm⟩

/-! ### `save` establishes `Merkle` -/

theorem lookup_map_keyed {α β : Type} (f : Key → α → β) (w : AList Key α) (k : Key) :
    AList.lookup (w.map fun e => (e.1, f e.1 e.2)) k = (AList.lookup w k).map (f k) := by
  induction w with
  | nil => rfl
  | cons a r ih =>
    obtain ⟨k', v⟩ := a
    simp only [List.map_cons, AList.lookup_cons, ih]
    by_cases e : k' = k
    · subst e; simp
    · simp [e]

def saveEntry (H : List Char → Str) (idx : Index) (k : Key) (e : Entry) : Entry :=
  if isDirEntry e then savedDirEntry H idx k e else e

theorem saveDirs_eq (H : List Char → Str) (idx : Index) :
    saveDirs H idx = idx.map fun e => (e.1, saveEntry H idx e.1 e.2) := by
  unfold saveDirs saveEntry
  apply map_congr_left
  intro e _
  split <;> rfl

theorem lookup_saveDirs (H : List Char → Str) (idx : Index) (k : Key) :
    (saveDirs H idx).lookup k = (idx.lookup k).map (saveEntry H idx k) := by
  rw [saveDirs_eq]; exact lookup_map_keyed (saveEntry H idx) idx k

theorem isDirEntry_saveEntry (H : List Char → Str) (idx : Index) (k : Key) (e : Entry) :
    isDirEntry (saveEntry H idx k e) = isDirEntry e := by
  unfold saveEntry
  cases hd : isDirEntry e with
  | true => simp [savedDirEntry, isDirEntry]
  | false => simp [hd]

theorem filterMap_congr' {α β : Type} (f g : α → Option β) (l : List α) (h : ∀ x ∈ l, f x = g x) :
    l.filterMap f = l.filterMap g := by
  induction l with
  | nil => rfl
  | cons a r ih =>
    simp only [filterMap_cons, h a (by simp)]
    rw [ih (fun x hx => h x (mem_cons_of_mem _ hx))]

/-- the listings do not change while the directory entries are being re-written -/
theorem treeBelow_saveDirs (H : List Char → Str) (idx : Index) (k : Key) :
    treeBelow (saveDirs H idx) k = treeBelow idx k := by
  rw [saveDirs_eq]
  unfold treeBelow
  rw [filterMap_map]
  apply filterMap_congr'
  intro e _
  simp only [Function.comp]
  cases hs : stripPrefix k e.1 with
  | none => rfl
  | some r =>
    cases r with
    | nil => rfl
    | cons p rest =>
      simp only [isDirEntry_saveEntry]
      cases hd : isDirEntry e.2 with
      | true => simp
      | false => simp [saveEntry, hd]

theorem digest_isdir (H : List Char → Str) (t : Tree.Tree) :
    ({ name := some kMd5, value := some (Tree.digest H t) } : HashInfo).isdir = true := by
  unfold HashInfo.isdir Tree.digest endsWithDir
  simp only [Bool.and_eq_true, Bool.not_eq_true']
  constructor
  · cases h : H (asBytes false t) <;> simp [dirSuffix]
  · exact List.isSuffixOf_iff_suffix.mpr (suffix_append _ _)

/-- **`save` derives every directory identifier from the files below it.**  After the directory loop of
    `save`, an entry carries a directory identifier exactly when it is a directory entry, that identifier is
    the digest of the listing of the files below it (what `add_update_tree` files the listing under - C01), under
    the name `md5`, which the md5-hashed files share. -/
theorem saveDirs_merkle (H : List Char → Str) (idx : Index)
    (hfiles : ∀ k e h, idx.lookup k = some e → isDirEntry e = false → e.hashInfo = some h → h.truthy = true →
      h.name = some kMd5 ∧ h.isdir = false) :
    Merkle H (saveDirs H idx) := by
  have key : ∀ k e h, (saveDirs H idx).lookup k = some e → e.hashInfo = some h → h.isdir = true →
      h = { name := some kMd5, value := some (Tree.digest H (treeBelow idx k)) } := by
    intro k e h hl hh hd
    rw [lookup_saveDirs] at hl
    cases hl0 : idx.lookup k with
    | none => simp [hl0] at hl
    | some e0 =>
      simp only [hl0, Option.map_some, Option.some.injEq] at hl
      subst hl
      unfold saveEntry at hh
      cases hde : isDirEntry e0 with
      | true => simp only [hde, if_true, savedDirEntry, Option.some.injEq] at hh; exact hh.symm
      | false =>
        simp only [hde, Bool.false_eq_true, if_false] at hh
        have := (hfiles k e0 h hl0 hde hh (isdir_truthy h hd)).2
        rw [this] at hd; cases hd
  refine ⟨?_, ?_, ?_⟩
  · intro k e h hl hh hd
    rw [key k e h hl hh hd, treeBelow_saveDirs]
  · intro k e h hl hh hd
    rw [key k e h hl hh hd]
    exact ⟨kMd5, rfl, by decide, by decide⟩
  · intro k e h hl hh hd r e' h' hl' hde' hh' ht'
    rw [key k e h hl hh hd]
    rw [lookup_saveDirs] at hl'
    cases hl0 : idx.lookup (k ++ r) with
    | none => simp [hl0] at hl'
    | some e0 =>
      simp only [hl0, Option.map_some, Option.some.injEq] at hl'
      subst hl'
      rw [isDirEntry_saveEntry] at hde'
      unfold saveEntry at hh'
      simp only [hde', Bool.false_eq_true, if_false] at hh'
      exact (hfiles (k ++ r) e0 h' hl0 hde' hh' ht').1

/-- saving twice changes nothing more -/
theorem saveDirs_idem (H : List Char → Str) (idx : Index) :
    saveDirs H (saveDirs H idx) = saveDirs H idx := by
  have h2 : ∀ (k : Key) (e : Entry), saveEntry H (saveDirs H idx) k (saveEntry H idx k e) = saveEntry H idx k e := by
    intro k e
    unfold saveEntry
    cases hd : isDirEntry e with
    | false => simp [hd]
    | true =>
      have : isDirEntry (savedDirEntry H idx k e) = true := by simp [savedDirEntry, isDirEntry]
      simp only [if_true, this]
      unfold savedDirEntry
      simp only [treeBelow_saveDirs]
  let F : Key × Entry → Key × Entry := fun e => (e.1, saveEntry H (saveDirs H idx) e.1 e.2)
  have e1 : saveDirs H (saveDirs H idx) = (saveDirs H idx).map F := saveDirs_eq H _
  have e2 : (saveDirs H idx).map F = (idx.map fun e => (e.1, saveEntry H idx e.1 e.2)).map F :=
    congrArg (fun l => l.map F) (saveDirs_eq H idx)
  rw [e1, e2, map_map]
  refine Eq.trans ?_ (saveDirs_eq H idx).symm
  apply map_congr_left
  intro e _
  simp only [Function.comp, F]
  rw [h2]

end DvcData.IndexSave

namespace DvcData.IndexSave
open DvcData Path MetaInfo IndexDiff

/-! ### the hypotheses are met by a concrete, non-trivial pair of indexes -/

def exIdx : Index :=
  [ ([['d']], { mt := some { isdir := true } }),
    ([['d'], ['a']], { mt := some { size := some 3 }, hashInfo := some { name := some kMd5, value := some ['x', '1'] } }),
    ([['d'], ['s'], ['b']], { mt := some {}, hashInfo := some { name := some kMd5, value := some ['y', '2'] } }),
    ([['t']], { mt := some {}, hashInfo := some { name := some kMd5, value := some ['z'] } }) ]

/-- the saved index is `Merkle` (by the theorem), its keys are fine, and the shortcut fires at `d` -/
example : Merkle id (saveDirs id exIdx) :=
  saveDirs_merkle id exIdx (by
    intro k e h hl hd hh ht
    have hm := AList.mem_of_lookup exIdx k e hl
    simp only [exIdx, List.mem_cons, Prod.mk.injEq, List.mem_nil_iff, or_false] at hm
    rcases hm with ⟨_, rfl⟩ | ⟨_, rfl⟩ | ⟨_, rfl⟩ | ⟨_, rfl⟩
    · simp [isDirEntry] at hd
    · simp only [Option.some.injEq] at hh; subst hh; exact ⟨rfl, by decide⟩
    · simp only [Option.some.injEq] at hh; subst hh; exact ⟨rfl, by decide⟩
    · simp only [Option.some.injEq] at hh; subst hh; exact ⟨rfl, by decide⟩)

theorem ex_lookup_d : (saveDirs id exIdx).lookup [['d']] =
    some (savedDirEntry id exIdx [['d']] { mt := some { isdir := true } }) := by
  rw [lookup_saveDirs]
  have : exIdx.lookup [['d']] = some { mt := some { isdir := true } } := by decide
  rw [this]; rfl

example : skipOf { hashOnly := true } (some (saveDirs id exIdx)) (some (saveDirs id exIdx)) [['d']] = true := by
  unfold skipOf
  rw [IndexCheckout.entryOf_lookup, ex_lookup_d, diffEntry_refl]
  simp only [Option.map_some, fixMeta, savedDirEntry, Bool.not_false, Bool.and_self, decide_true, Bool.true_and]
  exact digest_isdir id _

example : ((saveDirs id exIdx).lookup [['d']]).bind (·.mt) =
    some { isdir := true, size := some 3, nfiles := some 2, md5 := some (Tree.digest id (treeBelow exIdx [['d']])) } := by
  rw [ex_lookup_d]
  have h1 : treeSize (treeBelow exIdx [['d']]) = 3 := by decide
  have h2 : (treeBelow exIdx [['d']]).length = 2 := by decide
  simp [savedDirEntry, h1, h2]

end DvcData.IndexSave
