import DvcData.Model.StoreLayout
/-
  C06 on the directory layout: an object's path reads back as its identifier (`pathToOid_oidToPath`), only files two
  components below the root with a two-character first component are objects (`listed_shape`), so a store nested inside
  the collected store's directory, leftovers deeper down and stray files at the root are neither listed nor counted
  (`nested_not_listed`) and `gc` leaves every one of them where it is (`gc_touches_objects_only`, `gc_keeps_used_files`).
-/
namespace DvcData.StoreLayout
open DvcData List

/-- the path of an identifier of at least two characters reads back as that identifier -/
theorem pathToOid_oidToPath (oid : Oid) (h : 2 ≤ oid.length) : pathToOid (oidToPath oid) = some oid := by
  unfold pathToOid oidToPath
  have : (oid.take 2).length = 2 := by simp [List.length_take]; omega
  simp [this, List.take_append_drop]

/-- what is listed has the shape of an object path -/
theorem listed_shape (p : RelPath) (o : Oid) (h : pathToOid p = some o) :
    ∃ a b, p = [a, b] ∧ a.length = 2 ∧ o = a ++ b := by
  unfold pathToOid at h
  match p, h with
  | [a, b], h =>
    by_cases ha : a.length = 2
    · simp only [ha, if_true, Option.some.injEq] at h; exact ⟨a, b, rfl, ha, h.symm⟩
    · simp [ha] at h

/-- a file that is not exactly two components below the root - an object of a store nested deeper, a leftover inside an
    `.unpacked` directory, a stray file at the root - is not an object of this store -/
theorem nested_not_listed (p : RelPath) (h : p.length ≠ 2) : pathToOid p = none := by
  unfold pathToOid
  match p with
  | [] => rfl
  | [_] => rfl
  | [_, _] => exact absurd rfl h
  | _ :: _ :: _ :: _ => rfl

/-- `gc` removes object paths only -/
theorem gc_touches_objects_only (files : List RelPath) (keep : List Oid) (p : RelPath) (h : p ∈ gcFiles files keep) :
    ∃ o, pathToOid p = some o ∧ o ∉ keep := by
  unfold gcFiles at h
  obtain ⟨_, hp⟩ := mem_filter.mp h
  cases ho : pathToOid p with
  | none => simp [ho] at hp
  | some o => simp only [ho] at hp; exact ⟨o, rfl, by simpa using hp⟩

/-- whatever is not an object path, and every object path of a used identifier, is still there afterwards -/
theorem gc_keeps_used_files (files : List RelPath) (keep : List Oid) (p : RelPath) (hp : p ∈ files)
    (h : pathToOid p = none ∨ ∃ o, pathToOid p = some o ∧ o ∈ keep) : p ∈ afterGc files keep := by
  unfold afterGc
  apply mem_filter.mpr
  refine ⟨hp, ?_⟩
  simp only [Bool.not_eq_true', List.contains_eq_mem, decide_eq_false_iff_not]
  intro hin
  obtain ⟨o, ho, hnk⟩ := gc_touches_objects_only files keep p hin
  rcases h with h | ⟨o', ho', hk⟩
  · rw [h] at ho; cases ho
  · rw [ho'] at ho; injection ho with ho; subst ho; exact hnk hk

/-- the hypotheses are met: the collected store holds `ab/cdef`, a store nested at `files/md5` holds `ab/cdef` too, a stray
    file sits at the root - one object is listed, and a gc that keeps nothing removes exactly that file -/
example :
    let files : List RelPath := [["ab".toList, "cdef".toList], ["files".toList, "md5".toList, "ab".toList, "cdef".toList], ["README".toList]]
    listOids files = ["abcdef".toList] ∧
    afterGc files [] = [["files".toList, "md5".toList, "ab".toList, "cdef".toList], ["README".toList]] := by
  decide

end DvcData.StoreLayout
