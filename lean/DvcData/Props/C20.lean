import DvcData.Model.Serialize
import DvcData.Model.Tree
import DvcData.Proofs.Path
import DvcData.Proofs.AList
/-!
# C20 — index and entry serialisation round-trips
-/
namespace DvcData.MetaInfo
open DvcData Json AList

theorem lookup_append {κ ν : Type} [DecidableEq κ] (a b : AList κ ν) (k : κ) :
    lookup (a ++ b) k = match lookup a k with | some v => some v | none => lookup b k := by
  induction a with
  | nil => simp
  | cons p r ih =>
    obtain ⟨k', v'⟩ := p
    simp only [List.cons_append, lookup_cons]
    by_cases h : k' = k <;> simp [h, ih]

theorem lookup_optStr (k' k : Str) (o : Option Str) :
    lookup (optStr k' o) k =
      if k' = k then (match o with | some s => if s.isEmpty then none else some (.str s) | none => none)
      else none := by
  cases o with
  | none => simp [optStr]
  | some s =>
    simp only [optStr]
    by_cases hs : s.isEmpty = true
    · simp [hs]
    · simp [hs, lookup_cons]

theorem lookup_optNat (k' k : Str) (o : Option Nat) :
    lookup (optNat k' o) k = if k' = k then o.map JVal.int else none := by
  cases o with
  | none => simp [optNat]
  | some n => simp [optNat, lookup_cons]

theorem lookup_optTrue (k' k : Str) (b : Bool) :
    lookup (optTrue k' b) k = if k' = k ∧ b = true then some (.bool true) else none := by
  cases b <;> simp [optTrue, lookup_cons]

section
variable (m : Meta)

local macro "field_tac" : tactic => `(tactic|
  (simp only [Meta.toDict, getBool, getNat, getStr, lookup_append, lookup_optStr, lookup_optNat, lookup_optTrue]
   simp [kIsdir, kSize, kNfiles, kIsexec, kVersionId, kEtag, kChecksum, kMd5, kRemote, kInode, kMtime, normStr]))

theorem get_isdir : getBool m.toDict kIsdir = m.isdir := by
  field_tac; cases m.isdir <;> simp
theorem get_isexec : getBool m.toDict kIsexec = m.isexec := by
  field_tac; cases m.isexec <;> simp
theorem get_size : getNat m.toDict kSize = m.size := by
  field_tac; cases m.size <;> simp
theorem get_nfiles : getNat m.toDict kNfiles = m.nfiles := by
  field_tac; cases m.nfiles <;> simp
theorem get_inode : getNat m.toDict kInode = none := by field_tac
theorem get_mtime : getNat m.toDict kMtime = none := by field_tac
theorem get_versionId : getStr m.toDict kVersionId = normStr m.versionId := by
  field_tac
  cases m.versionId with
  | none => simp
  | some v => by_cases e : v = [] <;> simp [e]
theorem get_etag : getStr m.toDict kEtag = normStr m.etag := by
  field_tac
  cases m.etag with
  | none => simp
  | some v => by_cases e : v = [] <;> simp [e]
theorem get_checksum : getStr m.toDict kChecksum = normStr m.checksum := by
  field_tac
  cases m.checksum with
  | none => simp
  | some v => by_cases e : v = [] <;> simp [e]
theorem get_md5 : getStr m.toDict kMd5 = normStr m.md5 := by
  field_tac
  cases m.md5 with
  | none => simp
  | some v => by_cases e : v = [] <;> simp [e]
theorem get_remote : getStr m.toDict kRemote = normStr m.remote := by
  field_tac
  cases m.remote with
  | none => simp
  | some v => by_cases e : v = [] <;> simp [e]
end

/-- **Meta**: reading back what `to_dict` wrote gives the metadata on its serialised fields
    (falsy strings read back as `None`; inode/mtime are not serialised) -/
theorem meta_roundtrip (m : Meta) : Meta.fromDict (Meta.toDict m) = Meta.norm m := by
  simp only [Meta.fromDict, get_isdir, get_isexec, get_size, get_nfiles, get_inode, get_mtime,
    get_versionId, get_etag, get_checksum, get_md5, get_remote]
  rfl

theorem optStr_normStr (k : Str) (o : Option Str) : optStr k (normStr o) = optStr k o := by
  cases o with
  | none => rfl
  | some s => by_cases e : s.isEmpty = true <;> simp [normStr, optStr, e]

/-- ... and nothing that is serialised was lost: writing the read-back metadata gives the same dict -/
theorem meta_toDict_norm (m : Meta) : Meta.toDict (Meta.norm m) = Meta.toDict m := by
  simp only [Meta.toDict, Meta.norm, optStr_normStr]

theorem meta_dict_roundtrip (m : Meta) : Meta.toDict (Meta.fromDict (Meta.toDict m)) = Meta.toDict m := by
  rw [meta_roundtrip, meta_toDict_norm]

/-- a metadata object without falsy strings and without inode/mtime is read back exactly -/
theorem meta_roundtrip_exact (m : Meta) (h : Meta.norm m = m) : Meta.fromDict (Meta.toDict m) = m := by
  rw [meta_roundtrip, h]

/-- **HashInfo** -/
theorem hashinfo_roundtrip (h : HashInfo) :
    ∃ h', HashInfo.fromDict (HashInfo.toDict h) = some h' ∧ HashInfo.toDict h' = HashInfo.toDict h := by
  obtain ⟨name, value⟩ := h
  cases name with
  | none => exact ⟨{}, by simp [HashInfo.toDict, HashInfo.fromDict], by simp [HashInfo.toDict]⟩
  | some n =>
    cases value with
    | none => exact ⟨{}, by simp [HashInfo.toDict, HashInfo.fromDict], by simp [HashInfo.toDict]⟩
    | some v =>
      by_cases e : (v.isEmpty || n.isEmpty) = true
      · exact ⟨{}, by simp [HashInfo.toDict, HashInfo.fromDict, e], by simp [HashInfo.toDict, e]⟩
      · exact ⟨{ name := some n, value := some v }, by simp [HashInfo.toDict, HashInfo.fromDict, e], rfl⟩

/-- a well-formed hash (non-empty name and value) is read back exactly -/
theorem hashinfo_roundtrip_exact (n v : Str) (hn : n ≠ []) (hv : v ≠ []) :
    HashInfo.fromDict (HashInfo.toDict { name := some n, value := some v }) = some { name := some n, value := some v } := by
  have : (v.isEmpty || n.isEmpty) = false := by cases n <;> cases v <;> simp_all
  simp [HashInfo.toDict, HashInfo.fromDict, this]

theorem hashinfo_truthy_toDict (h : HashInfo) (ht : h.truthy = false) (hd : HashInfo.toDict h ≠ []) : False := by
  obtain ⟨name, value⟩ := h
  cases name <;> cases value <;> simp_all [HashInfo.toDict, HashInfo.truthy]

/-- **Entry**: `from_dict(to_dict(e))` succeeds and has the same serialisable projection
    (metadata dict, hash dict, loaded flag) -/
theorem entry_roundtrip (e : Entry) :
    ∃ e', Entry.fromDict (Entry.toDict e) = some e' ∧ e'.proj = e.proj := by
  obtain ⟨mt, hi, loaded⟩ := e
  -- metadata part
  have hm : ∀ mt : Option Meta, ((metaOfDict? (mt.map Meta.toDict)).map Meta.toDict).getD [] =
      (mt.map Meta.toDict).getD [] := by
    intro mt
    cases mt with
    | none => rfl
    | some m =>
      simp only [Option.map_some, metaOfDict?]
      by_cases hem : (Meta.toDict m).isEmpty = true
      · simp [hem]; exact List.isEmpty_iff.mp hem
      · simp [hem, meta_dict_roundtrip]
  cases hi with
  | none =>
    refine ⟨_, rfl, ?_⟩
    simp only [Entry.proj, Entry.toDict]
    rw [hm mt]
  | some h =>
    by_cases ht : h.truthy = true
    · obtain ⟨h', hf, hd⟩ := hashinfo_roundtrip h
      by_cases hemp : (HashInfo.toDict h).isEmpty = true
      · refine ⟨{ mt := metaOfDict? (mt.map Meta.toDict), hashInfo := none, loaded := loaded }, ?_, ?_⟩
        · simp [Entry.fromDict, Entry.toDict, ht, hemp]
        · simp only [Entry.proj]
          rw [hm mt]
          simp [List.isEmpty_iff.mp hemp]
      · refine ⟨{ mt := metaOfDict? (mt.map Meta.toDict), hashInfo := some h', loaded := loaded }, ?_, ?_⟩
        · simp [Entry.fromDict, Entry.toDict, ht, hemp, hf]
        · simp only [Entry.proj]
          rw [hm mt, hd]
    · have ht' : h.truthy = false := by simpa using ht
      refine ⟨{ mt := metaOfDict? (mt.map Meta.toDict), hashInfo := none, loaded := loaded }, ?_, ?_⟩
      · simp [Entry.fromDict, Entry.toDict, ht']
      · simp only [Entry.proj]
        rw [hm mt]
        have : HashInfo.toDict h = [] := by
          apply Classical.byContradiction
          intro hne; exact hashinfo_truthy_toDict h ht' hne
        simp [this]

end DvcData.MetaInfo

namespace DvcData.Serialize
open DvcData Path MetaInfo

/-- **index, '/'-joined forms (JSON file, key-value DB)**: reading back what was written gives the
    same keys and, for every entry, the same serialisable projection. -/
theorem index_roundtrip_joined (idx : Index) (hok : ∀ p ∈ idx, KeyOK p.1) :
    ∃ idx', readJoined (writeJoined idx) = some idx' ∧
      idx'.map (·.1) = idx.map (·.1) ∧ idx'.map (·.2.proj) = idx.map (·.2.proj) := by
  unfold readJoined writeJoined
  induction idx with
  | nil => exact ⟨[], rfl, rfl, rfl⟩
  | cons p r ih =>
    obtain ⟨e', he, hp⟩ := entry_roundtrip p.2
    obtain ⟨r', hr, hf1, hf2⟩ := ih (fun q hq => hok q (List.mem_cons_of_mem _ hq))
    refine ⟨(p.1, e') :: r', ?_, by simp [hf1], by simp [hf2, hp]⟩
    simp only [List.map_cons, List.mapM_cons, he, Option.map_some]
    rw [splitC_joinC p.1 (hok p (by simp)), hr]
    rfl

/-- **index, SQLite-backed trie (after commit/close/reopen)**: any key, including the empty root -/
theorem index_roundtrip_trie (idx : Index) :
    ∃ idx', readTrie (writeTrie idx) = some idx' ∧
      idx'.map (·.1) = idx.map (·.1) ∧ idx'.map (·.2.proj) = idx.map (·.2.proj) := by
  unfold readTrie writeTrie
  induction idx with
  | nil => exact ⟨[], rfl, rfl, rfl⟩
  | cons p r ih =>
    obtain ⟨e', he, hp⟩ := entry_roundtrip p.2
    obtain ⟨r', hr, hf1, hf2⟩ := ih
    refine ⟨(p.1, e') :: r', ?_, by simp [hf1], by simp [hf2, hp]⟩
    simp only [List.map_cons, List.mapM_cons, he, Option.map_some]
    rw [hr]
    rfl

/-- keys survive the textual form -/
theorem key_roundtrip (k : Key) (h : KeyOK k) : splitC (joinC k) = k := splitC_joinC k h

/-! non-vacuity -/
example : KeyOK [['d', 'i', 'r'], ['é', ' ', 'x']] := by decide
example : (Entry.toDict { mt := some {}, hashInfo := some { name := some kMd5, value := some ['a', '.', 'd', 'i', 'r'] }, loaded := some false }).mt = some [] := by decide

end DvcData.Serialize

/-! ### a directory listing entry read back under its hash name -/
namespace DvcData.Tree
open DvcData Path Json MetaInfo AList

/-- **listing round trip (one entry)**: what `as_list` writes for an entry with an md5 hash, `from_list` reads
    back as the same key and the same hash (mirrored into the metadata field of that name) -/
theorem listing_entry_roundtrip (k : Key) (hk : KeyOK k) (v : Str) (hv : v.isEmpty = false) (m : Option Meta) :
    entryOfDict (some md5Name) (entryDict false (k, (m, some { name := some md5Name, value := some v }))) =
      some (k, (some { md5 := some v }, some { name := some md5Name, value := some v })) := by
  have hd : entryDict false (k, (m, some { name := some md5Name, value := some v })) =
      [(md5Name, .str v), (relpathKey, .str (joinC k))] := by
    simp only [entryDict, hiToDict, HashInfo.truthy, hv, Bool.not_false, Bool.not_true, Bool.false_eq_true, if_false,
      HashInfo.toDict]
    have h1 : (some md5Name = some dos2unixName) = False := by simp [md5Name, dos2unixName, kMd5]
    have h2 : md5Name.isEmpty = false := by decide
    simp [h1, h2, hv, AList.set, md5Name, relpathKey, kMd5]
  rw [hd]
  have hl : AList.lookup ([(md5Name, JVal.str v), (relpathKey, JVal.str (joinC k))] : JObj) relpathKey = some (.str (joinC k)) := by
    simp [AList.lookup_cons, md5Name, relpathKey, kMd5]
  have he : AList.erase ([(md5Name, JVal.str v), (relpathKey, JVal.str (joinC k))] : JObj) relpathKey = [(md5Name, .str v)] := by
    simp [AList.erase, md5Name, relpathKey, kMd5]
  simp only [entryOfDict, hl, he]
  have hm : Meta.fromDict [(md5Name, JVal.str v)] = { md5 := some v } := by
    simp [Meta.fromDict, getBool, getNat, getStr, AList.lookup_cons, md5Name, kMd5, kIsdir, kSize, kNfiles, kIsexec, kVersionId,
      kEtag, kChecksum, kInode, kMtime, kRemote]
  have hn : (md5Name = dos2unixName) = False := by simp [md5Name, dos2unixName, kMd5]
  simp [hm, hn, splitC_joinC k hk]

/-- the metadata `from_list` reconstructs from what `as_list(with_meta=True)` wrote for an entry -/
theorem fromDict_listing_rest (m : Meta) (v rp : Str) :
    Meta.fromDict ((((Meta.toDict m).set md5Name (.str v)).set relpathKey (.str rp)).erase relpathKey) =
      { Meta.norm m with md5 := some v } := by
  have key : ∀ key : Str, key ≠ relpathKey →
      AList.lookup ((((Meta.toDict m).set md5Name (.str v)).set relpathKey (.str rp)).erase relpathKey) key =
        if md5Name = key then some (.str v) else AList.lookup (Meta.toDict m) key := by
    intro key h
    rw [AList.lookup_erase, AList.lookup_set, AList.lookup_set]
    have h' : ¬ relpathKey = key := fun e => h e.symm
    simp [h']
  have gb : ∀ key : Str, key ≠ relpathKey → md5Name ≠ key →
      getBool ((((Meta.toDict m).set md5Name (.str v)).set relpathKey (.str rp)).erase relpathKey) key = getBool (Meta.toDict m) key := by
    intro k h1 h2; unfold getBool; rw [key k h1]; simp [h2]
  have gn : ∀ key : Str, key ≠ relpathKey → md5Name ≠ key →
      getNat ((((Meta.toDict m).set md5Name (.str v)).set relpathKey (.str rp)).erase relpathKey) key = getNat (Meta.toDict m) key := by
    intro k h1 h2; unfold getNat; rw [key k h1]; simp [h2]
  have gs : ∀ key : Str, key ≠ relpathKey → md5Name ≠ key →
      getStr ((((Meta.toDict m).set md5Name (.str v)).set relpathKey (.str rp)).erase relpathKey) key = getStr (Meta.toDict m) key := by
    intro k h1 h2; unfold getStr; rw [key k h1]; simp [h2]
  have gm : getStr ((((Meta.toDict m).set md5Name (.str v)).set relpathKey (.str rp)).erase relpathKey) kMd5 = some v := by
    unfold getStr; rw [key kMd5 (by decide)]; simp [md5Name]
  unfold Meta.fromDict
  rw [gb kIsdir (by decide) (by decide), gb kIsexec (by decide) (by decide), gn kSize (by decide) (by decide),
    gn kNfiles (by decide) (by decide), gn kInode (by decide) (by decide), gn kMtime (by decide) (by decide),
    gs kVersionId (by decide) (by decide), gs kEtag (by decide) (by decide), gs kChecksum (by decide) (by decide),
    gs kRemote (by decide) (by decide), gm]
  simp only [get_isdir, get_isexec, get_size, get_nfiles, get_inode, get_mtime, get_versionId, get_etag, get_checksum, get_remote]
  rfl

/-- **listing round trip (one entry, written with metadata)**: `from_list` reads back the key, the hash, and the
    serialised metadata with the hash mirrored into its `md5` field -/
theorem listing_entry_roundtrip_meta (k : Key) (hk : KeyOK k) (v : Str) (hv : v.isEmpty = false) (m : Meta) :
    entryOfDict (some md5Name) (entryDict true (k, (some m, some { name := some md5Name, value := some v }))) =
      some (k, (some { Meta.norm m with md5 := some v }, some { name := some md5Name, value := some v })) := by
  have hd : entryDict true (k, (some m, some { name := some md5Name, value := some v })) =
      ((Meta.toDict m).set md5Name (.str v)).set relpathKey (.str (joinC k)) := by
    simp only [entryDict, hiToDict, HashInfo.truthy, hv, Bool.not_false, Bool.not_true, Bool.false_eq_true, if_false,
      HashInfo.toDict]
    have h1 : (some md5Name = some dos2unixName) = False := by simp [md5Name, dos2unixName, kMd5]
    have h2 : md5Name.isEmpty = false := by decide
    simp [h1, h2, hv]
  rw [hd]
  have hl : AList.lookup (((Meta.toDict m).set md5Name (.str v)).set relpathKey (.str (joinC k))) relpathKey =
      some (.str (joinC k)) := by rw [AList.lookup_set]; simp
  simp only [entryOfDict, hl, fromDict_listing_rest]
  have hn : (md5Name = dos2unixName) = False := by simp [md5Name, dos2unixName, kMd5]
  simp [hn, splitC_joinC k hk]

/-! ### the whole listing -/

/-- what `from_list` makes of an entry `as_list` wrote: the hash, and as metadata either the serialised fields
    (written with metadata) or nothing, with the hash value mirrored into `md5` -/
def readBack (w : Bool) (tv : TVal) : TVal :=
  (some (match w, tv.1 with
    | true, some m => { Meta.norm m with md5 := tv.2.bind (·.value) }
    | _, _ => { md5 := tv.2.bind (·.value) }), tv.2)

/-- entries a directory object holds: a well-formed key and a non-empty md5 value -/
def GoodE (e : Key × TVal) : Prop :=
  KeyOK e.1 ∧ ∃ v : Str, v.isEmpty = false ∧ e.2.2 = some { name := some md5Name, value := some v }

theorem entry_readBack (w : Bool) (e : Key × TVal) (h : GoodE e) :
    entryOfDict (some md5Name) (entryDict w e) = some (e.1, readBack w e.2) := by
  obtain ⟨k, m, hi⟩ := e
  obtain ⟨hk, v, hv, hh⟩ := h
  simp only at hk hh
  subst hh
  cases w with
  | false => simpa [readBack] using listing_entry_roundtrip k hk v hv m
  | true =>
    cases m with
    | some m => simpa [readBack] using listing_entry_roundtrip_meta k hk v hv m
    | none =>
      have : entryDict true (k, ((none : Option Meta), some ({ name := some md5Name, value := some v } : HashInfo))) =
          entryDict false (k, (none, some { name := some md5Name, value := some v })) := by simp [entryDict]
      rw [this]
      simpa [readBack] using listing_entry_roundtrip k hk v hv none

theorem foldlM_parse (hn : Option Str) (g : JObj → Key × TVal) : ∀ (ds : List JObj) (t0 : Tree),
    (∀ d ∈ ds, entryOfDict hn d = some (g d)) →
    ds.foldlM (fun t d => (entryOfDict hn d).map fun e => AList.set t e.1 e.2) t0 =
      some (ds.foldl (fun t d => AList.set t (g d).1 (g d).2) t0) := by
  intro ds
  induction ds with
  | nil => intro t0 _; rfl
  | cons d r ih =>
    intro t0 h
    simp only [List.foldlM_cons, List.foldl_cons, h d (by simp), Option.map_some, Option.bind_eq_bind, Option.bind_some]
    exact ih _ (fun x hx => h x (List.mem_cons_of_mem _ hx))

theorem lookup_foldl_set_nodup : ∀ (es : List (Key × TVal)) (t0 : Tree) (k : Key), (AList.keys es).Nodup →
    AList.lookup (es.foldl (fun t e => AList.set t e.1 e.2) t0) k =
      match AList.lookup es k with
      | some v => some v
      | none => AList.lookup t0 k := by
  intro es
  induction es with
  | nil => intro t0 k _; rfl
  | cons c r ih =>
    intro t0 k hnd
    obtain ⟨ck, cv⟩ := c
    have hnd' : (AList.keys r).Nodup := (List.nodup_cons.mp hnd).2
    have hnot : ck ∉ AList.keys r := (List.nodup_cons.mp hnd).1
    simp only [List.foldl_cons]
    rw [ih _ k hnd', AList.lookup_cons]
    by_cases e : ck = k
    · subst e
      have : AList.lookup r ck = none := (AList.lookup_eq_none_iff r ck).mpr hnot
      simp [this, AList.lookup_set]
    · simp only [e, if_false, AList.lookup_set]

/-- **C20 (directory listing).** For every directory object whose keys are well-formed and distinct and whose
    entries carry non-empty md5 values, reading back what `as_list` wrote — with or without metadata, in
    the sorted order `as_list` uses — succeeds and gives a tree that binds exactly the same keys, each to its
    hash and to the metadata that is serialised -/
theorem listing_roundtrip (w : Bool) (t : Tree) (hwf : AList.WF t) (hg : ∀ e ∈ t, GoodE e) :
    ∃ t', fromList (some md5Name) (asList w t) = some t' ∧
      ∀ k, AList.lookup t' k = (AList.lookup t k).map (readBack w) := by
  -- the parse of each written dict
  let g : JObj → Key × TVal := fun d => (entryOfDict (some md5Name) d).getD ([], (none, none))
  have hperm : List.Perm (asList w t) (t.map (entryDict w)) := by
    unfold asList
    have h1 := List.mergeSort_perm (t.map fun e => (joinC e.1, entryDict w e)) (fun a b => charsLe a.1 b.1)
    have h2 := h1.map (·.2)
    simpa [List.map_map, Function.comp_def] using h2
  have hmem : ∀ d, d ∈ asList w t ↔ ∃ e ∈ t, entryDict w e = d := by
    intro d; rw [hperm.mem_iff, List.mem_map]
  have hparse : ∀ d ∈ asList w t, entryOfDict (some md5Name) d = some (g d) := by
    intro d hd
    obtain ⟨e, he, rfl⟩ := (hmem d).mp hd
    simp [g, entry_readBack w e (hg e he)]
  have hge : ∀ e ∈ t, g (entryDict w e) = (e.1, readBack w e.2) := by
    intro e he; simp [g, entry_readBack w e (hg e he)]
  refine ⟨(asList w t).foldl (fun t d => AList.set t (g d).1 (g d).2) [], ?_, ?_⟩
  · exact foldlM_parse (some md5Name) g (asList w t) [] hparse
  · intro k
    have hfold : (asList w t).foldl (fun t d => AList.set t (g d).1 (g d).2) ([] : Tree) =
        ((asList w t).map g).foldl (fun t e => AList.set t e.1 e.2) [] := by rw [List.foldl_map]
    have hkeys : List.Perm (AList.keys ((asList w t).map g)) (AList.keys t) := by
      unfold AList.keys
      have := (hperm.map g).map (·.1)
      refine this.trans (List.Perm.of_eq ?_)
      rw [List.map_map, List.map_map]
      exact List.map_congr_left (fun e he => by simp [hge e he])
    have hnd : (AList.keys ((asList w t).map g)).Nodup := hkeys.nodup_iff.mpr hwf
    rw [hfold, lookup_foldl_set_nodup _ [] k hnd]
    have hmemg : ∀ kv, kv ∈ (asList w t).map g ↔ ∃ e ∈ t, (e.1, readBack w e.2) = kv := by
      intro kv
      rw [(hperm.map g).mem_iff, List.map_map, List.mem_map]
      constructor
      · rintro ⟨e, he, rfl⟩; exact ⟨e, he, (hge e he).symm⟩
      · rintro ⟨e, he, rfl⟩; exact ⟨e, he, hge e he⟩
    apply Option.ext
    intro v
    constructor
    · intro h
      have h' : AList.lookup ((asList w t).map g) k = some v := by
        cases hl : AList.lookup ((asList w t).map g) k with
        | none => rw [hl] at h; simp at h
        | some v' => rw [hl] at h; simpa using h
      obtain ⟨e, he, heq⟩ := (hmemg (k, v)).mp (AList.mem_of_lookup _ k v h')
      have hk : e.1 = k := congrArg Prod.fst heq
      have hv : readBack w e.2 = v := congrArg Prod.snd heq
      have := AList.lookup_of_mem t hwf e.1 e.2 he
      rw [← hk, this]; simp [hv]
    · intro h
      cases hl : AList.lookup t k with
      | none => rw [hl] at h; simp at h
      | some tv =>
        rw [hl] at h
        simp only [Option.map_some, Option.some.injEq] at h
        have hm := AList.mem_of_lookup t k tv hl
        have : (k, v) ∈ (asList w t).map g := (hmemg (k, v)).mpr ⟨(k, tv), hm, by simp [h]⟩
        rw [AList.lookup_of_mem _ hnd k v this]

/-! non-vacuity: a two-entry directory object (one entry with metadata, one nested key) meets the hypotheses -/
def exTree : Tree :=
  [([['s', 'u', 'b'], ['b']], (some { size := some 3, isexec := true, etag := some [] }, some { name := some md5Name, value := some ['1', '2'] })),
   ([['a']], (none, some { name := some md5Name, value := some ['3', '4'] }))]

example : AList.WF exTree := by decide
example : ∀ e ∈ exTree, GoodE e := by
  intro e he
  simp only [exTree, List.mem_cons, List.mem_nil_iff, or_false] at he
  rcases he with rfl | rfl
  · exact ⟨by decide, ['1', '2'], rfl, rfl⟩
  · exact ⟨by decide, ['3', '4'], rfl, rfl⟩
example : readBack true (some { size := some 3, isexec := true, etag := some [] }, some { name := some md5Name, value := some ['1', '2'] }) =
    (some { size := some 3, isexec := true, md5 := some ['1', '2'] }, some { name := some md5Name, value := some ['1', '2'] }) := by decide

end DvcData.Tree
