import DvcData.Model.Serialize
import DvcData.Model.Tree
import DvcData.Proofs.Path
import DvcData.Proofs.AList
/-!
# C20 — index and entry serialisation round-trips
-/
namespace DvcData.MetaInfo
open DvcData Json AList

theorem lookup_append {κ ν : Type} [DecidableEq κ] (a b : AList κ ν) (k : κ) :
    lookup (a ++ b) k = match lookup a k with | some v => some v | none => lookup b k := by
  induction a with
  | nil => simp
  | cons p r ih =>
    obtain ⟨k', v'⟩ := p
    simp only [List.cons_append, lookup_cons]
    by_cases h : k' = k <;> simp [h, ih]

theorem lookup_optStr (k' k : Str) (o : Option Str) :
    lookup (optStr k' o) k =
      if k' = k then (match o with | some s => if s.isEmpty then none else some (.str s) | none => none)
      else none := by
  cases o with
  | none => simp [optStr]
  | some s =>
    simp only [optStr]
    by_cases hs : s.isEmpty = true
    · simp [hs]
    · simp [hs, lookup_cons]

theorem lookup_optNat (k' k : Str) (o : Option Nat) :
    lookup (optNat k' o) k = if k' = k then o.map JVal.int else none := by
  cases o with
  | none => simp [optNat]
  | some n => simp [optNat, lookup_cons]

theorem lookup_optTrue (k' k : Str) (b : Bool) :
    lookup (optTrue k' b) k = if k' = k ∧ b = true then some (.bool true) else none := by
  cases b <;> simp [optTrue, lookup_cons]

section
variable (m : Meta)

local macro "field_tac" : tactic => `(tactic|
  (simp only [Meta.toDict, getBool, getNat, getStr, lookup_append, lookup_optStr, lookup_optNat, lookup_optTrue]
   simp [kIsdir, kSize, kNfiles, kIsexec, kVersionId, kEtag, kChecksum, kMd5, kRemote, kInode, kMtime, normStr]))

theorem get_isdir : getBool m.toDict kIsdir = m.isdir := by
  field_tac; cases m.isdir <;> simp
theorem get_isexec : getBool m.toDict kIsexec = m.isexec := by
  field_tac; cases m.isexec <;> simp
theorem get_size : getNat m.toDict kSize = m.size := by
  field_tac; cases m.size <;> simp
theorem get_nfiles : getNat m.toDict kNfiles = m.nfiles := by
  field_tac; cases m.nfiles <;> simp
theorem get_inode : getNat m.toDict kInode = none := by field_tac
theorem get_mtime : getNat m.toDict kMtime = none := by field_tac
theorem get_versionId : getStr m.toDict kVersionId = normStr m.versionId := by
  field_tac
  cases m.versionId with
  | none => simp
  | some v => by_cases e : v = [] <;> simp [e]
theorem get_etag : getStr m.toDict kEtag = normStr m.etag := by
  field_tac
  cases m.etag with
  | none => simp
  | some v => by_cases e : v = [] <;> simp [e]
theorem get_checksum : getStr m.toDict kChecksum = normStr m.checksum := by
  field_tac
  cases m.checksum with
  | none => simp
  | some v => by_cases e : v = [] <;> simp [e]
theorem get_md5 : getStr m.toDict kMd5 = normStr m.md5 := by
  field_tac
  cases m.md5 with
  | none => simp
  | some v => by_cases e : v = [] <;> simp [e]
theorem get_remote : getStr m.toDict kRemote = normStr m.remote := by
  field_tac
  cases m.remote with
  | none => simp
  | some v => by_cases e : v = [] <;> simp [e]
end

/-- **Meta**: reading back what `to_dict` wrote gives the metadata on its serialised fields
    (falsy strings read back as `None`; inode/mtime are not serialised) -/
theorem meta_roundtrip (m : Meta) : Meta.fromDict (Meta.toDict m) = Meta.norm m := by
  simp only [Meta.fromDict, get_isdir, get_isexec, get_size, get_nfiles, get_inode, get_mtime,
    get_versionId, get_etag, get_checksum, get_md5, get_remote]
  rfl

theorem optStr_normStr (k : Str) (o : Option Str) : optStr k (normStr o) = optStr k o := by
  cases o with
  | none => rfl
  | some s => by_cases e : s.isEmpty = true <;> simp [normStr, optStr, e]

/-- ... and nothing that is serialised was lost: writing the read-back metadata gives the same dict -/
theorem meta_toDict_norm (m : Meta) : Meta.toDict (Meta.norm m) = Meta.toDict m := by
  simp only [Meta.toDict, Meta.norm, optStr_normStr]

theorem meta_dict_roundtrip (m : Meta) : Meta.toDict (Meta.fromDict (Meta.toDict m)) = Meta.toDict m := by
  rw [meta_roundtrip, meta_toDict_norm]

/-- a metadata object without falsy strings and without inode/mtime is read back exactly -/
theorem meta_roundtrip_exact (m : Meta) (h : Meta.norm m = m) : Meta.fromDict (Meta.toDict m) = m := by
  rw [meta_roundtrip, h]

/-- **HashInfo** -/
theorem hashinfo_roundtrip (h : HashInfo) :
    ∃ h', HashInfo.fromDict (HashInfo.toDict h) = some h' ∧ HashInfo.toDict h' = HashInfo.toDict h := by
  obtain ⟨name, value⟩ := h
  cases name with
  | none => exact ⟨{}, by simp [HashInfo.toDict, HashInfo.fromDict], by simp [HashInfo.toDict]⟩
  | some n =>
    cases value with
    | none => exact ⟨{}, by simp [HashInfo.toDict, HashInfo.fromDict], by simp [HashInfo.toDict]⟩
    | some v =>
      by_cases e : (v.isEmpty || n.isEmpty) = true
      · exact ⟨{}, by simp [HashInfo.toDict, HashInfo.fromDict, e], by simp [HashInfo.toDict, e]⟩
      · exact ⟨{ name := some n, value := some v }, by simp [HashInfo.toDict, HashInfo.fromDict, e], rfl⟩

/-- a well-formed hash (non-empty name and value) is read back exactly -/
theorem hashinfo_roundtrip_exact (n v : Str) (hn : n ≠ []) (hv : v ≠ []) :
    HashInfo.fromDict (HashInfo.toDict { name := some n, value := some v }) = some { name := some n, value := some v } := by
  have : (v.isEmpty || n.isEmpty) = false := by cases n <;> cases v <;> simp_all
  simp [HashInfo.toDict, HashInfo.fromDict, this]

theorem hashinfo_truthy_toDict (h : HashInfo) (ht : h.truthy = false) (hd : HashInfo.toDict h ≠ []) : False := by
  obtain ⟨name, value⟩ := h
  cases name <;> cases value <;> simp_all [HashInfo.toDict, HashInfo.truthy]

/-- **Entry**: `from_dict(to_dict(e))` succeeds and has the same serialisable projection
    (metadata dict, hash dict, loaded flag) -/
theorem entry_roundtrip (e : Entry) :
    ∃ e', Entry.fromDict (Entry.toDict e) = some e' ∧ e'.proj = e.proj := by
  obtain ⟨mt, hi, loaded⟩ := e
  -- metadata part
  have hm : ∀ mt : Option Meta, ((metaOfDict? (mt.map Meta.toDict)).map Meta.toDict).getD [] =
      (mt.map Meta.toDict).getD [] := by
    intro mt
    cases mt with
    | none => rfl
    | some m =>
      simp only [Option.map_some, metaOfDict?]
      by_cases hem : (Meta.toDict m).isEmpty = true
      · simp [hem]; exact List.isEmpty_iff.mp hem
      · simp [hem, meta_dict_roundtrip]
  cases hi with
  | none =>
    refine ⟨_, rfl, ?_⟩
    simp only [Entry.proj, Entry.toDict]
    rw [hm mt]
  | some h =>
    by_cases ht : h.truthy = true
    · obtain ⟨h', hf, hd⟩ := hashinfo_roundtrip h
      by_cases hemp : (HashInfo.toDict h).isEmpty = true
      · refine ⟨{ mt := metaOfDict? (mt.map Meta.toDict), hashInfo := none, loaded := loaded }, ?_, ?_⟩
        · simp [Entry.fromDict, Entry.toDict, ht, hemp]
        · simp only [Entry.proj]
          rw [hm mt]
          simp [List.isEmpty_iff.mp hemp]
      · refine ⟨{ mt := metaOfDict? (mt.map Meta.toDict), hashInfo := some h', loaded := loaded }, ?_, ?_⟩
        · simp [Entry.fromDict, Entry.toDict, ht, hemp, hf]
        · simp only [Entry.proj]
          rw [hm mt, hd]
    · have ht' : h.truthy = false := by simpa using ht
      refine ⟨{ mt := metaOfDict? (mt.map Meta.toDict), hashInfo := none, loaded := loaded }, ?_, ?_⟩
      · simp [Entry.fromDict, Entry.toDict, ht']
      · simp only [Entry.proj]
        rw [hm mt]
        have : HashInfo.toDict h = [] := by
          apply Classical.byContradiction
          intro hne; exact hashinfo_truthy_toDict h ht' hne
        simp [this]

end DvcData.MetaInfo

namespace DvcData.Serialize
open DvcData Path MetaInfo

/-- **index, '/'-joined forms (JSON file, key-value DB)**: reading back what was written gives the
    same keys and, for every entry, the same serialisable projection. -/
theorem index_roundtrip_joined (idx : Index) (hok : ∀ p ∈ idx, KeyOK p.1) :
    ∃ idx', readJoined (writeJoined idx) = some idx' ∧
      idx'.map (·.1) = idx.map (·.1) ∧ idx'.map (·.2.proj) = idx.map (·.2.proj) := by
  unfold readJoined writeJoined
  induction idx with
  | nil => exact ⟨[], rfl, rfl, rfl⟩
  | cons p r ih =>
    obtain ⟨e', he, hp⟩ := entry_roundtrip p.2
    obtain ⟨r', hr, hf1, hf2⟩ := ih (fun q hq => hok q (List.mem_cons_of_mem _ hq))
    refine ⟨(p.1, e') :: r', ?_, by simp [hf1], by simp [hf2, hp]⟩
    simp only [List.map_cons, List.mapM_cons, he, Option.map_some]
    rw [splitC_joinC p.1 (hok p (by simp)), hr]
    rfl

/-- **index, SQLite-backed trie (after commit/close/reopen)**: any key, including the empty root -/
theorem index_roundtrip_trie (idx : Index) :
    ∃ idx', readTrie (writeTrie idx) = some idx' ∧
      idx'.map (·.1) = idx.map (·.1) ∧ idx'.map (·.2.proj) = idx.map (·.2.proj) := by
  unfold readTrie writeTrie
  induction idx with
  | nil => exact ⟨[], rfl, rfl, rfl⟩
  | cons p r ih =>
    obtain ⟨e', he, hp⟩ := entry_roundtrip p.2
    obtain ⟨r', hr, hf1, hf2⟩ := ih
    refine ⟨(p.1, e') :: r', ?_, by simp [hf1], by simp [hf2, hp]⟩
    simp only [List.map_cons, List.mapM_cons, he, Option.map_some]
    rw [hr]
    rfl

/-- keys survive the textual form -/
theorem key_roundtrip (k : Key) (h : KeyOK k) : splitC (joinC k) = k := splitC_joinC k h

/-! non-vacuity -/
example : KeyOK [['d', 'i', 'r'], ['é', ' ', 'x']] := by decide
example : (Entry.toDict { mt := some {}, hashInfo := some { name := some kMd5, value := some ['a', '.', 'd', 'i', 'r'] }, loaded := some false }).mt = some [] := by decide

end DvcData.Serialize

/-! ### a directory listing entry read back under its hash name -/
namespace DvcData.Tree
open DvcData Path Json MetaInfo AList

/-- **listing round trip (one entry)**: what `as_list` writes for an entry with an md5 hash, `from_list` reads
    back as the same key and the same hash (mirrored into the metadata field of that name) -/
theorem listing_entry_roundtrip (k : Key) (hk : KeyOK k) (v : Str) (hv : v.isEmpty = false) (m : Option Meta) :
    entryOfDict (some md5Name) (entryDict false (k, (m, some { name := some md5Name, value := some v }))) =
      some (k, (some { md5 := some v }, some { name := some md5Name, value := some v })) := by
  have hd : entryDict false (k, (m, some { name := some md5Name, value := some v })) =
      [(md5Name, .str v), (relpathKey, .str (joinC k))] := by
    simp only [entryDict, hiToDict, HashInfo.truthy, hv, Bool.not_false, Bool.not_true, Bool.false_eq_true, if_false,
      HashInfo.toDict]
    have h1 : (some md5Name = some dos2unixName) = False := by simp [md5Name, dos2unixName, kMd5]
    have h2 : md5Name.isEmpty = false := by decide
    simp [h1, h2, hv, AList.set, md5Name, relpathKey, kMd5]
  rw [hd]
  have hl : AList.lookup ([(md5Name, JVal.str v), (relpathKey, JVal.str (joinC k))] : JObj) relpathKey = some (.str (joinC k)) := by
    simp [AList.lookup_cons, md5Name, relpathKey, kMd5]
  have he : AList.erase ([(md5Name, JVal.str v), (relpathKey, JVal.str (joinC k))] : JObj) relpathKey = [(md5Name, .str v)] := by
    simp [AList.erase, md5Name, relpathKey, kMd5]
  simp only [entryOfDict, hl, he]
  have hm : Meta.fromDict [(md5Name, JVal.str v)] = { md5 := some v } := by
    simp [Meta.fromDict, getBool, getNat, getStr, AList.lookup_cons, md5Name, kMd5, kIsdir, kSize, kNfiles, kIsexec, kVersionId,
      kEtag, kChecksum, kInode, kMtime, kRemote]
  have hn : (md5Name = dos2unixName) = False := by simp [md5Name, dos2unixName, kMd5]
  simp [hm, hn, splitC_joinC k hk]

end DvcData.Tree
