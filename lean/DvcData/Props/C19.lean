import DvcData.Proofs.Merge
/-!
# C19 — three-way directory merge never silently loses or overrides an entry

Property theorems about `Merge.merge`, the model of `dvc_data.hashfile.tree._merge`.
`κ` is the type of paths, `ν` the type of `(meta, hash)` values; both arbitrary.
-/
namespace DvcData.Merge
open DvcData AList
variable {κ ν : Type} [DecidableEq κ] [DecidableEq ν]

/-- result of `patch (ddiff a x ++ ddiff a y) a`, pointwise -/
theorem patch_two (a x y r : AList κ ν) (hwa : WF a) (hwx : WF x) (hwy : WF y)
    (h : patch (ddiff a x ++ ddiff a y) a = some r) (k : κ) :
    r.lookup k = if a.lookup k = y.lookup k then (if a.lookup k = x.lookup k then a.lookup k else x.lookup k)
                 else y.lookup k := by
  rw [patch_append] at h
  cases h1 : patch (ddiff a x) a with
  | none => simp [h1] at h
  | some m =>
    simp [h1] at h
    rw [patch_ddiff a y m r hwa hwy h k, patch_ddiff a x a m hwa hwx h1 k]

/-- **C19 (main).** A successful merge is exactly the three-way merge: every path takes the side that
    changed it, or the common value; in particular no conflict path exists when the merge succeeds.
    Holds for every allowed-operations policy, every key universe, all listings. -/
theorem merge_ok_threeway (allowed : List Kind) (a o t r : AList κ ν)
    (hwa : WF a) (hwo : WF o) (hwt : WF t)
    (h : merge allowed a o t = .ok r) (k : κ) :
    threeWay (a.lookup k) (o.lookup k) (t.lookup k) = some (r.lookup k) := by
  unfold merge at h
  simp only at h
  split at h
  · cases h
  split at h
  · rename_i _ he
    have hr : r = t := by injection h with h; exact h.symm
    rw [hr]
    have := ddiff_isEmpty a o hwa hwo he k
    unfold threeWay
    by_cases e : o.lookup k = t.lookup k <;> simp [e, this]
  split at h
  · cases h
  split at h
  · rename_i _ _ _ he
    have hr : r = o := by injection h with h; exact h.symm
    rw [hr]
    have := ddiff_isEmpty a t hwa hwt he k
    unfold threeWay
    by_cases e : o.lookup k = t.lookup k
    · simp [e]
    · simp only [e, if_false]
      by_cases e2 : o.lookup k = a.lookup k
      · exact absurd (e2.trans this) e
      · simp [this]
        intro c; exact absurd c e
  split at h
  · rename_i r1 r2 h1 h2
    split at h
    · rename_i heq
      have hr : r1 = r := by injection h
      rw [← hr]
      have e1 := patch_two a o t r1 hwa hwo hwt h1 k
      have e2 := patch_two a t o r2 hwa hwt hwo h2 k
      have e := dictEq_lookup r1 r2 heq k
      rw [e1, e2] at e
      rw [e1]
      unfold threeWay
      by_cases c1 : a.lookup k = t.lookup k <;> by_cases c2 : a.lookup k = o.lookup k <;>
        simp_all
    · cases h
  · cases h

/-- whenever both argument orders succeed they give the same result -/
theorem merge_comm (allowed : List Kind) (a o t r1 r2 : AList κ ν)
    (hwa : WF a) (hwo : WF o) (hwt : WF t)
    (h1 : merge allowed a o t = .ok r1) (h2 : merge allowed a t o = .ok r2) (k : κ) :
    r1.lookup k = r2.lookup k := by
  have e1 := merge_ok_threeway allowed a o t r1 hwa hwo hwt h1 k
  have e2 := merge_ok_threeway allowed a t o r2 hwa hwt hwo h2 k
  unfold threeWay at e1 e2
  by_cases c : o.lookup k = t.lookup k
  · simp [c] at e1 e2; rw [← e1, ← e2]
  · have c' : ¬ t.lookup k = o.lookup k := fun e => c e.symm
    simp only [c, c', if_false] at e1 e2
    by_cases c2 : o.lookup k = a.lookup k
    · simp only [c2, if_true] at e1 e2
      by_cases c3 : t.lookup k = a.lookup k
      · exact absurd (c2.trans c3.symm) c
      · simp [c3] at e1 e2; rw [← e1, ← e2]
    · simp only [c2, if_false] at e1 e2
      by_cases c3 : t.lookup k = a.lookup k
      · simp [c3] at e1 e2; rw [← e1, ← e2]
      · simp [c3] at e1

/-- nothing is dropped or resurrected: a path absent from the result is absent from, or was removed
    by, a side; a path present in the result has a value that one of the two sides has. -/
theorem merge_no_invention (allowed : List Kind) (a o t r : AList κ ν)
    (hwa : WF a) (hwo : WF o) (hwt : WF t)
    (h : merge allowed a o t = .ok r) (k : κ) :
    r.lookup k = o.lookup k ∨ r.lookup k = t.lookup k := by
  have e := merge_ok_threeway allowed a o t r hwa hwo hwt h k
  unfold threeWay at e
  split at e
  · simp at e; exact Or.inl e.symm
  split at e
  · simp at e; exact Or.inr e.symm
  split at e
  · simp at e; exact Or.inl e.symm
  · cases e

/-- With the default policy (`allowed = None`) a merge that really combines changes from both
    sides succeeded only if both sides merely added entries: every ancestor path is untouched. -/
theorem merge_default_policy (a o t r : AList κ ν)
    (hwa : WF a) (hwo : WF o) (hwt : WF t)
    (h : merge [] a o t = .ok r)
    (ho : (ddiff a o).isEmpty = false) (ht : (ddiff a t).isEmpty = false) (k : κ)
    (hk : a.lookup k ≠ none) : o.lookup k = a.lookup k ∧ t.lookup k = a.lookup k := by
  unfold merge at h
  simp only [ho, ht] at h
  split at h
  · cases h
  rename_i hao
  simp only [Bool.false_eq_true, if_false] at h
  split at h
  · cases h
  rename_i hat
  have key : ∀ (b : AList κ ν), WF b → allowedOk [] (ddiff a b) = true → b.lookup k = a.lookup k := by
    intro b hwb hal
    apply Classical.byContradiction
    intro e
    obtain ⟨rc, hrc, hkk⟩ := ddiff_complete a b hwa hwb k (fun x => e x.symm)
    unfold allowedOk effAllowed at hal
    simp only [List.isEmpty_nil, if_true, List.all_eq_true] at hal
    have hadd := hal rc hrc
    simp at hadd
    have := ((ddiff_kind a b hwa hwb rc hrc).1).mp hadd
    rw [hkk] at this
    exact hk this
  exact ⟨key o hwo (by simpa using hao), key t hwt (by simpa using hat)⟩

/-! ### non-vacuity: concrete listings that satisfy the hypotheses -/

example : merge (κ := Nat) (ν := Nat) [.add, .remove, .change]
    [(1, 10), (2, 20), (3, 30)] [(1, 11), (2, 20), (4, 40)] [(1, 10), (3, 30), (5, 50)]
    = .ok [(1, 11), (4, 40), (5, 50)] := by decide

example : merge (κ := Nat) (ν := Nat) [] [(1, 10)] [(1, 10), (2, 20)] [(1, 10), (3, 30)]
    = .ok [(1, 10), (2, 20), (3, 30)] := by decide

/-- remove-vs-change is a conflict, reported as a merge error (F5) -/
example : merge (κ := Nat) (ν := Nat) [.add, .remove, .change]
    [(1, 10), (2, 20)] [(2, 20)] [(1, 11), (2, 20)] = .mergeError := by decide

example : WF ([(1, 10), (2, 20), (3, 30)] : AList Nat Nat) := by decide

end DvcData.Merge
