import DvcData.Proofs.TransferAcct
/-!
# C04 — transfer keeps the destination closed; C11 — the result tells the truth

Theorems about `Transfer.transferWith`, the model of `transfer()` after `compare_status`.
They hold for every listing function, every set of new objects, every processing order of the
directories, every failure predicate and every crash cut.
-/
namespace DvcData.Transfer
open DvcData Status

variable {Oid : Type} [DecidableEq Oid]

/-- the request is closed with respect to the status that was computed: every file listed by a
    directory that has to be uploaded is already in the destination, has to be uploaded too, or
    is known to be missing on both sides; listed objects are files; `dirOrder` enumerates the new
    directories -/
structure ClosedReq (cx : Ctx Oid) (dest0 new dirOrder : List Oid) : Prop where
  entries : ∀ d ∈ dirOrder, ∀ f ∈ cx.L d, f ∈ dest0 ∨ f ∈ new ∨ f ∈ cx.missing
  files : ∀ d ∈ dirOrder, ∀ f ∈ cx.L d, cx.isDir f = false
  dirs : ∀ d, d ∈ dirOrder ↔ (d ∈ new ∧ cx.isDir d = true)

theorem closedReq_acc (cx : Ctx Oid) (dest0 new dirOrder : List Oid) (h : ClosedReq cx dest0 new dirOrder) :
    Acc cx { dest := dest0, pending := new.filter fun x => !cx.isDir x, failed := [] } dirOrder := by
  intro d hd f hf
  rcases h.entries d hd f hf with h1 | h1 | h1
  · exact Or.inl h1
  · exact Or.inr (Or.inl (List.mem_filter.mpr ⟨h1, by simp [h.files d hd f hf]⟩))
  · exact Or.inr (Or.inr (Or.inr h1))

/-- **C04 (main): the destination is closed at every crash cut**, whatever fails, in whatever
    order the directories are processed. -/
theorem transfer_closed_every_cut (cx : Ctx Oid) (dest0 new dirOrder : List Oid)
    (idx : Option (RIndex Oid)) (h0 : Closed cx dest0) (hreq : ClosedReq cx dest0 new dirOrder)
    (k : Nat) (hk : dest0.length ≤ k) :
    Closed cx ((transferWith cx dest0 new idx dirOrder).dest.take k) := by
  unfold transferWith
  split
  · simpa [List.take_of_length_le hk] using h0
  · have hc := closed_every_prefix cx
      { dest := dest0, pending := new.filter fun x => !cx.isDir x, failed := [] } dirOrder k h0
      (fun x hx => by simpa using (List.mem_filter.mp hx).2) (closedReq_acc cx dest0 new dirOrder hreq) hk
    simp only
    split <;> exact hc

/-- in particular the final destination is closed -/
theorem transfer_closed_final (cx : Ctx Oid) (dest0 new dirOrder : List Oid)
    (idx : Option (RIndex Oid)) (h0 : Closed cx dest0) (hreq : ClosedReq cx dest0 new dirOrder) :
    Closed cx (transferWith cx dest0 new idx dirOrder).dest := by
  have := transfer_closed_every_cut cx dest0 new dirOrder idx h0 hreq
    ((transferWith cx dest0 new idx dirOrder).dest.length + dest0.length) (by omega)
  rwa [List.take_of_length_le (by omega)] at this

/-- the objects that have to move: new files and new directories -/
theorem mem_new_split (cx : Ctx Oid) (dest0 new dirOrder : List Oid) (hreq : ClosedReq cx dest0 new dirOrder)
    (x : Oid) (hx : x ∈ new) : x ∈ (new.filter fun x => !cx.isDir x) ∨ x ∈ dirOrder := by
  by_cases hd : cx.isDir x = true
  · exact Or.inr ((hreq.dirs x).mpr ⟨hx, hd⟩)
  · exact Or.inl (List.mem_filter.mpr ⟨hx, by simpa using hd⟩)

/-- **C11: every object that had to move is delivered or reported failed** (nothing is silently
    dropped; a withheld directory object is reported as failed) -/
theorem absent_accounted (cx : Ctx Oid) (dest0 new dirOrder : List Oid) (idx : Option (RIndex Oid))
    (hreq : ClosedReq cx dest0 new dirOrder) (x : Oid) (hx : x ∈ new)
    (habs : x ∉ (transferWith cx dest0 new idx dirOrder).dest) :
    x ∈ (transferWith cx dest0 new idx dirOrder).failed := by
  have hne : new.isEmpty = false := by cases new <;> simp_all
  have hacc := doTransfer_accounts cx
    { dest := dest0, pending := new.filter fun x => !cx.isDir x, failed := [] } dirOrder x
    (mem_new_split cx dest0 new dirOrder hreq x hx)
  unfold transferWith at habs ⊢
  simp only [hne, Bool.false_eq_true, if_false] at habs ⊢
  split
  · rename_i hfe
    simp only [hfe, if_true] at habs
    rcases hacc with h | h
    · exact absurd h habs
    · have : x ∈ dedup (doTransfer cx { dest := dest0, pending := new.filter fun x => !cx.isDir x, failed := [] } dirOrder).failed :=
        (mem_dedup _ _).mpr h
      rw [List.isEmpty_iff.mp hfe] at this; simp at this
  · rename_i hfe
    simp only [hfe, if_false] at habs
    rcases hacc with h | h
    · exact absurd h habs
    · exact (mem_dedup _ _).mpr h

/-- **C11: what is reported as transferred is in the destination** -/
theorem transferred_present (cx : Ctx Oid) (dest0 new dirOrder : List Oid) (idx : Option (RIndex Oid))
    (hreq : ClosedReq cx dest0 new dirOrder) (x : Oid)
    (hx : x ∈ (transferWith cx dest0 new idx dirOrder).transferred) :
    x ∈ (transferWith cx dest0 new idx dirOrder).dest := by
  apply Classical.byContradiction
  intro habs
  have hxn : x ∈ new ∧ x ∉ (transferWith cx dest0 new idx dirOrder).failed := by
    by_cases he : new.isEmpty = true
    · simp [transferWith, he] at hx
    · by_cases hfe : (dedup (doTransfer cx { dest := dest0, pending := new.filter fun x => !cx.isDir x, failed := [] } dirOrder).failed).isEmpty = true
      · simp only [transferWith, he, hfe, if_true, if_false, Bool.false_eq_true] at hx ⊢
        exact ⟨hx, by simp⟩
      · simp only [transferWith, he, hfe, if_false, Bool.false_eq_true] at hx ⊢
        exact (mem_diff _ _ _).mp hx
  exact hxn.2 (absent_accounted cx dest0 new dirOrder idx hreq x hxn.1 habs)

/-- **C11: transferred and failed partition the new objects** -/
theorem result_partition (cx : Ctx Oid) (dest0 new dirOrder : List Oid) (idx : Option (RIndex Oid))
    (hreq : ClosedReq cx dest0 new dirOrder) (x : Oid) :
    (x ∈ new ↔ (x ∈ (transferWith cx dest0 new idx dirOrder).transferred ∨
                x ∈ (transferWith cx dest0 new idx dirOrder).failed)) ∧
    ¬ (x ∈ (transferWith cx dest0 new idx dirOrder).transferred ∧
       x ∈ (transferWith cx dest0 new idx dirOrder).failed) := by
  have hsub : ∀ y, y ∈ (doTransfer cx { dest := dest0, pending := new.filter fun x => !cx.isDir x, failed := [] } dirOrder).failed → y ∈ new := by
    intro y hy
    rcases doTransfer_failed_sub cx _ dirOrder y hy with h | h | h
    · simp at h
    · exact ((hreq.dirs y).mp h).1
    · exact (List.mem_filter.mp h).1
  unfold transferWith
  split
  · rename_i he
    have : new = [] := List.isEmpty_iff.mp he
    subst this; simp
  · simp only
    split
    · simp
    · constructor
      · constructor
        · intro hx
          by_cases hf : x ∈ dedup (doTransfer cx { dest := dest0, pending := new.filter fun x => !cx.isDir x, failed := [] } dirOrder).failed
          · exact Or.inr hf
          · exact Or.inl ((mem_diff _ _ _).mpr ⟨hx, hf⟩)
        · rintro (h | h)
          · exact ((mem_diff _ _ _).mp h).1
          · exact hsub x ((mem_dedup _ _).mp h)
      · rintro ⟨h1, h2⟩
        exact ((mem_diff _ _ _).mp h1).2 h2

/-- **C04: a clean retry completes**: with no failing upload and no listed file missing on both
    sides, nothing fails and every new object ends up in the destination -/
theorem retry_completes (cx : Ctx Oid) (dest0 new dirOrder : List Oid) (idx : Option (RIndex Oid))
    (hreq : ClosedReq cx dest0 new dirOrder) (hnf : ∀ x, cx.fails x = false)
    (hm : ∀ d ∈ dirOrder, ∀ f ∈ cx.L d, f ∉ cx.missing) :
    (transferWith cx dest0 new idx dirOrder).failed = [] ∧
    ∀ x ∈ new, x ∈ (transferWith cx dest0 new idx dirOrder).dest := by
  have hf := doTransfer_nofail cx hnf
    { dest := dest0, pending := new.filter fun x => !cx.isDir x, failed := [] } dirOrder rfl hm
  have h1 : (transferWith cx dest0 new idx dirOrder).failed = [] := by
    unfold transferWith
    split
    · rfl
    · simp only [hf]; simp [dedup, union]
  refine ⟨h1, ?_⟩
  intro x hx
  apply Classical.byContradiction
  intro habs
  have := absent_accounted cx dest0 new dirOrder idx hreq x hx habs
  rw [h1] at this; simp at this

/-! non-vacuity: two directories sharing file 1, whose upload fails (the F2 scenario) -/
def cxF2 : Ctx Nat :=
  { L := fun d => if d = 10 then [1, 2] else if d = 11 then [1, 3] else [],
    isDir := fun d => decide (d ≥ 10), fails := fun x => decide (x = 1), missing := [] }

example : (transferWith cxF2 [] [1, 2, 3, 10, 11] none [10, 11]).dest = [2, 3] ∧
    (transferWith cxF2 [] [1, 2, 3, 10, 11] none [10, 11]).failed = [1, 10, 11] ∧
    (transferWith cxF2 [] [1, 2, 3, 10, 11] none [10, 11]).transferred = [2, 3] := by decide

example : ClosedReq cxF2 [] [1, 2, 3, 10, 11] [10, 11] := by
  refine ⟨?_, ?_, ?_⟩
  · intro d hd f hf
    simp at hd
    rcases hd with rfl | rfl <;> simp [cxF2] at hf <;> rcases hf with rfl | rfl <;> simp
  · intro d hd f hf
    simp at hd
    rcases hd with rfl | rfl <;> simp [cxF2] at hf <;> rcases hf with rfl | rfl <;> simp [cxF2]
  · intro d
    simp [cxF2]
    omega

end DvcData.Transfer
