import DvcData.Model.Staging
import DvcData.Proofs.AList
/-
  C02 / C01: what a transfer out of a staging area files in the store.

  `stage_refsOK`: the table of one `build()` call refers every oid to a path whose bytes hash to it.
  `refsOK_of_untouched`: that stays true for every later workspace that agrees with the staged one on the
  paths the table mentions - whatever happens to *other* paths, in particular to paths staged by other calls.
  `transferStaged_addressed`: transferring out of such a table keeps the store content-addressed, and
  `transferStaged_delivers`: every requested oid of the table is in the store afterwards with the staged bytes.
  The `example` at the end is the counter-model: one table *shared* by two `build()` calls (what a memoised
  staging area amounts to) lets the second call re-point an oid at its own path, and an edit of that path
  then files foreign bytes under the oid although the first call's directory was never touched.
-/
namespace DvcData.Staging
open DvcData

theorem stageInto_refsOK (H : Bytes → Oid) (fs : Fs) : ∀ (paths : List Path) (refs : Refs),
    RefsOK H fs refs → RefsOK H fs (stageInto H fs paths refs) := by
  intro paths
  induction paths with
  | nil => intro refs h; exact h
  | cons p r ih =>
    intro refs h
    unfold stageInto
    cases hl : fs.lookup p with
    | none => exact ih refs h
    | some b =>
      apply ih
      intro o q hq
      rw [AList.lookup_set] at hq
      by_cases e : H b = o
      · simp only [e, if_true, Option.some.injEq] at hq
        subst hq
        exact ⟨b, hl, e⟩
      · simp only [e, if_false] at hq
        exact h o q hq

/-- the table of one `build()` call is sound for the workspace it was built from -/
theorem stage_refsOK (H : Bytes → Oid) (fs : Fs) (paths : List Path) : RefsOK H fs (stage H fs paths) :=
  stageInto_refsOK H fs paths [] (by intro o p h; simp at h)

/-- ... and for every later workspace that agrees with it on the paths the table mentions -/
theorem refsOK_of_untouched (H : Bytes → Oid) (fs fs' : Fs) (refs : Refs) (h : RefsOK H fs refs)
    (hsame : ∀ o p, refs.lookup o = some p → fs'.lookup p = fs.lookup p) : RefsOK H fs' refs := by
  intro o p hp
  obtain ⟨b, hb, hh⟩ := h o p hp
  exact ⟨b, by rw [hsame o p hp]; exact hb, hh⟩

/-- transferring out of a sound table keeps the store content-addressed -/
theorem transferStaged_addressed (H : Bytes → Oid) (fs : Fs) (refs : Refs) (hr : RefsOK H fs refs) :
    ∀ (oids : List Oid) (s : Store), Addressed H s → Addressed H (transferStaged fs refs oids s) := by
  intro oids
  induction oids with
  | nil => intro s h; exact h
  | cons o r ih =>
    intro s h
    unfold transferStaged
    split
    · exact ih s h
    · cases hl : refs.lookup o with
      | none => exact ih s h
      | some p =>
        obtain ⟨b, hb, hh⟩ := hr o p hl
        simp only [hb]
        apply ih
        intro o' b' hm
        rcases List.mem_append.mp hm with hm | hm
        · exact h o' b' hm
        · simp only [List.mem_singleton, Prod.mk.injEq] at hm
          rw [hm.1, hm.2, hh]

theorem transferStaged_mono (fs : Fs) (refs : Refs) : ∀ (oids : List Oid) (s : Store) (x : Oid × Bytes),
    x ∈ s → x ∈ transferStaged fs refs oids s := by
  intro oids
  induction oids with
  | nil => intro s x h; exact h
  | cons o r ih =>
    intro s x h
    unfold transferStaged
    split
    · exact ih s x h
    · cases refs.lookup o with
      | none => exact ih s x h
      | some p =>
        simp only
        cases fs.lookup p with
        | none => exact ih s x h
        | some b => exact ih _ x (List.mem_append_left _ h)

/-- every requested oid the table knows is in the store afterwards -/
theorem transferStaged_delivers (H : Bytes → Oid) (fs : Fs) (refs : Refs) (hr : RefsOK H fs refs) :
    ∀ (oids : List Oid) (s : Store) (o : Oid), o ∈ oids → (refs.lookup o).isSome = true →
      (transferStaged fs refs oids s).contains o = true := by
  intro oids
  induction oids with
  | nil => intro s o h; simp at h
  | cons x r ih =>
    intro s o ho hk
    have keep : ∀ (s' : Store), s'.contains o = true → (transferStaged fs refs r s').contains o = true := by
      intro s' hc
      obtain ⟨b, hb⟩ := (AList.contains_eq_true_iff s' o).mp hc
      have hm := transferStaged_mono fs refs r s' (o, b) (AList.mem_of_lookup s' o b hb)
      rw [AList.contains_eq_true_iff]
      have : o ∈ AList.keys (transferStaged fs refs r s') := List.mem_map.mpr ⟨(o, b), hm, rfl⟩
      have := (AList.lookup_isSome_iff_mem_keys _ o).mpr this
      cases hl : AList.lookup (transferStaged fs refs r s') o with
      | none => rw [hl] at this; cases this
      | some v => exact ⟨v, rfl⟩
    unfold transferStaged
    rcases List.mem_cons.mp ho with rfl | ho'
    · split
      · rename_i hc; exact keep s hc
      · cases hl : refs.lookup o with
        | none => rw [hl] at hk; cases hk
        | some p =>
          obtain ⟨b, hb, _⟩ := hr o p hl
          simp only [hb]
          apply keep
          rw [AList.contains_eq_true_iff]
          have : o ∈ AList.keys (s ++ [(o, b)]) := by simp [AList.keys]
          have := (AList.lookup_isSome_iff_mem_keys _ o).mpr this
          cases hl2 : AList.lookup (s ++ [(o, b)]) o with
          | none => rw [hl2] at this; cases this
          | some v => exact ⟨v, rfl⟩
    · split
      · exact ih s o ho' hk
      · cases refs.lookup x with
        | none => exact ih s o ho' hk
        | some p =>
          simp only
          cases fs.lookup p with
          | none => exact ih s o ho' hk
          | some b => exact ih _ o ho' hk

/-- **C02/C01, staging.** A directory staged by one `build()` call and not touched since is transferred
    faithfully - the store stays content-addressed and every staged oid is delivered - whatever other calls
    staged in between and whatever happened to *their* paths. -/
theorem staged_transfer_faithful (H : Bytes → Oid) (fs fs' : Fs) (paths : List Path) (oids : List Oid) (s : Store)
    (hs : Addressed H s)
    (hsame : ∀ o p, (stage H fs paths).lookup o = some p → fs'.lookup p = fs.lookup p) :
    Addressed H (transferStaged fs' (stage H fs paths) oids s) ∧
    ∀ o ∈ oids, ((stage H fs paths).lookup o).isSome = true →
      (transferStaged fs' (stage H fs paths) oids s).contains o = true := by
  have hr := refsOK_of_untouched H fs fs' _ (stage_refsOK H fs paths) hsame
  exact ⟨transferStaged_addressed H fs' _ hr oids s hs, fun o ho hk => transferStaged_delivers H fs' _ hr oids s o ho hk⟩

/-! ### the hypotheses are met, and a shared table breaks the property -/

def exH : Bytes → Oid := fun b => String.ofList (b.map fun c => Char.ofNat c.toNat)
def exFs : Fs := [(['A', '/', 'f'], [115]), (['B', '/', 'f'], [115]), (['A', '/', 'g'], [116])]
/-- the user edits `B/f` after both directories were staged -/
def exFs' : Fs := [(['A', '/', 'f'], [115]), (['B', '/', 'f'], [120]), (['A', '/', 'g'], [116])]

/-- per-call tables: staging `A`, then (elsewhere) `B`, editing `B/f`, transferring `A` files `s` under `"s"` -/
example : transferStaged exFs' (stage exH exFs [['A', '/', 'f'], ['A', '/', 'g']]) ["s", "t"] [] = [("s", [115]), ("t", [116])] := by
  decide

/-- one table shared by both calls: the second call re-points `"s"` at `B/f`, and the transfer of `A`'s objects files the
    edited bytes of `B/f` under `"s"` - the store is no longer content-addressed -/
example :
    let shared := stageInto exH exFs [['B', '/', 'f']] (stage exH exFs [['A', '/', 'f'], ['A', '/', 'g']])
    transferStaged exFs' shared ["s", "t"] [] = [("s", [120]), ("t", [116])] ∧ exH [120] ≠ "s" := by
  decide

end DvcData.Staging
