import DvcData.Model.TransferR
import DvcData.Proofs.Transfer
/-
  C11 / C04 when a new directory object's listing cannot be read: the transfer either gives up - no result, and what has
  arrived so far leaves the destination closed (`giveUp_closed`) - or, if it returns a result, that result is the result of the
  transfer in which every listing was readable (`doTransferR_some`), so every theorem about `doTransfer` (partition,
  transferred present, absent accounted, closure at every cut) applies to it: a result that is returned tells the truth.
-/
namespace DvcData.Transfer
open DvcData Status List

variable {Oid : Type} [DecidableEq Oid]

theorem loopR_some (cx : Ctx Oid) (readable : Oid → Bool) : ∀ (dirs : List Oid) (s s' : St Oid),
    loopR cx readable dirs s = some s' → s' = dirs.foldl (stepDir cx) s ∧ ∀ d ∈ dirs, readable d = true := by
  intro dirs
  induction dirs with
  | nil => intro s s' h; simp only [loopR, Option.some.injEq] at h; exact ⟨h.symm, by simp⟩
  | cons d r ih =>
    intro s s' h
    simp only [loopR] at h
    split at h
    · rename_i hr
      obtain ⟨h1, h2⟩ := ih _ _ h
      exact ⟨by simpa using h1, fun x hx => by rcases mem_cons.mp hx with rfl | hx; exact hr; exact h2 x hx⟩
    · cases h

theorem loopR_none_iff (cx : Ctx Oid) (readable : Oid → Bool) : ∀ (dirs : List Oid) (s : St Oid),
    loopR cx readable dirs s = none ↔ ∃ d ∈ dirs, readable d = false := by
  intro dirs
  induction dirs with
  | nil => intro s; simp [loopR]
  | cons d r ih =>
    intro s
    simp only [loopR]
    by_cases hr : readable d = true
    · simp only [hr, if_true, ih, mem_cons, exists_eq_or_imp, Bool.true_eq_false, false_or]
    · have hr' : readable d = false := by simpa using hr
      simp [hr']

/-- **a result that is returned is the result of the transfer with every listing readable** -/
theorem doTransferR_some (cx : Ctx Oid) (readable : Oid → Bool) (s r : St Oid) (dirs : List Oid)
    (h : doTransferR cx readable s dirs = some r) : r = doTransfer cx s dirs ∧ ∀ d ∈ dirs, readable d = true := by
  unfold doTransferR at h
  cases hl : loopR cx readable dirs s with
  | none => rw [hl] at h; cases h
  | some s' =>
    rw [hl] at h
    obtain ⟨h1, h2⟩ := loopR_some cx readable dirs s s' hl
    simp only [Option.map_some, Option.some.injEq] at h
    refine ⟨?_, h2⟩
    rw [← h, h1]; rfl

/-- the transfer gives up exactly when a new directory's listing cannot be read -/
theorem doTransferR_none_iff (cx : Ctx Oid) (readable : Oid → Bool) (s : St Oid) (dirs : List Oid) :
    doTransferR cx readable s dirs = none ↔ ∃ d ∈ dirs, readable d = false := by
  unfold doTransferR
  rw [Option.map_eq_none_iff]
  exact loopR_none_iff cx readable dirs s

theorem destAtGiveUp_safeExt (cx : Ctx Oid) (readable : Oid → Bool) : ∀ (dirs : List Oid) (s : St Oid),
    (∀ x ∈ s.pending, cx.isDir x = false) → Acc cx s dirs → SafeExt cx s.dest (destAtGiveUp cx readable dirs s) := by
  intro dirs
  induction dirs with
  | nil => intro s _ _; exact .refl _
  | cons d r ih =>
    intro s hp hacc
    simp only [destAtGiveUp]
    split
    · obtain ⟨h1, h2, h3⟩ := stepDir_safe cx s d r hp hacc
      exact h1.trans (ih _ h3 h2)
    · exact .refl _

/-- **when the transfer gives up, what has arrived leaves the destination closed** -/
theorem giveUp_closed (cx : Ctx Oid) (readable : Oid → Bool) (s : St Oid) (dirs : List Oid)
    (h0 : Closed cx s.dest) (hp : ∀ x ∈ s.pending, cx.isDir x = false) (hacc : Acc cx s dirs) :
    Closed cx (destAtGiveUp cx readable dirs s) := by
  have h := (destAtGiveUp_safeExt cx readable dirs s hp hacc).prefix_closed h0 (destAtGiveUp cx readable dirs s).length
    (destAtGiveUp_safeExt cx readable dirs s hp hacc).length_le
  simpa using h

end DvcData.Transfer
