import DvcData.Model.FsPath
import DvcData.Proofs.Path
/-
  C17, the adaptor's path <-> key conversion: the key of the path spelled from a key is that key, with or without the leading
  slash (`getKey_joinC`, `getKey_abs`), the root path is the root key, and whatever the spelling the key has only clean parts
  (`getKey_clean`).
-/
namespace DvcData.FsPath
open DvcData Path List

theorem foldl_stepComp_clean : ∀ (k acc : Key), (∀ c ∈ k, CleanPart c) → k.foldl stepComp acc = acc ++ k := by
  intro k
  induction k with
  | nil => intro acc _; simp
  | cons c r ih =>
    intro acc h
    obtain ⟨h1, h2, h3, _⟩ := h c (by simp)
    simp only [foldl_cons]
    have : stepComp acc c = acc ++ [c] := by simp [stepComp, h1, h2, h3]
    rw [this, ih _ (fun x hx => h x (mem_cons_of_mem _ hx))]
    simp

/-- the path spelled from a key (relative spelling) has that key -/
theorem getKey_joinC (k : Key) (hne : k ≠ []) (h : ∀ c ∈ k, CleanPart c) : getKey (joinC k) = k := by
  unfold getKey
  rw [splitC_joinC k ⟨hne, fun p hp => (h p hp).2.2.2⟩, foldl_stepComp_clean k [] h]
  simp

theorem splitC_sep_cons (s : List Char) : splitC (sep :: s) = [] :: splitC s := by
  simp [splitC]

/-- a leading slash changes nothing -/
theorem getKey_abs (p : List Char) : getKey (sep :: p) = getKey p := by
  unfold getKey
  rw [splitC_sep_cons]
  simp [stepComp]

/-- ... so the absolute spelling of a key has that key too, and the root marker is the root key -/
theorem getKey_abs_joinC (k : Key) (hne : k ≠ []) (h : ∀ c ∈ k, CleanPart c) : getKey (sep :: joinC k) = k := by
  rw [getKey_abs, getKey_joinC k hne h]

theorem getKey_root : getKey [sep] = [] := by decide

theorem mem_dropLast_of {α : Type} (l : List α) (x : α) (h : x ∈ l.dropLast) : x ∈ l :=
  (List.dropLast_subset l) h

/-- whatever the spelling, the key has only clean parts -/
theorem getKey_clean (p : List Char) : ∀ c ∈ getKey p, CleanPart c := by
  unfold getKey
  have hparts : ∀ c ∈ splitC p, sep ∉ c := (splitC_KeyOK p).2
  have : ∀ (l : Key) (acc : Key), (∀ c ∈ l, sep ∉ c) → (∀ c ∈ acc, CleanPart c) → ∀ c ∈ l.foldl stepComp acc, CleanPart c := by
    intro l
    induction l with
    | nil => intro acc _ h; exact h
    | cons x r ih =>
      intro acc hl hacc
      simp only [foldl_cons]
      apply ih _ (fun c hc => hl c (mem_cons_of_mem _ hc))
      unfold stepComp
      split
      · exact hacc
      · rename_i h1
        split
        · intro c hc; exact hacc c (mem_dropLast_of acc c hc)
        · rename_i h2
          intro c hc
          rcases mem_append.mp hc with hc | hc
          · exact hacc c hc
          · simp only [mem_singleton] at hc; subst hc
            have h1' : ¬ c = [] ∧ ¬ c = dot := by simpa [not_or] using h1
            exact ⟨h1'.1, h1'.2, h2, hl c (by simp)⟩
  exact this (splitC p) [] hparts (by simp)

/-- the key is a fixed point: spelling it out and reading it back changes nothing -/
theorem getKey_idem (p : List Char) (hne : getKey p ≠ []) : getKey (sep :: joinC (getKey p)) = getKey p :=
  getKey_abs_joinC (getKey p) hne (getKey_clean p)

example : getKey "/a/./b/../c//d".toList = [['a'], ['c'], ['d']] := by decide
example : getKey "../x".toList = [['x']] := by decide

end DvcData.FsPath
