import DvcData.Proofs.Sets
/-!
# C06 — garbage collection removes exactly the unused objects and never a used one
-/
namespace DvcData.Status
open DvcData

variable {Oid : Type} [DecidableEq Oid] {Name : Type} [DecidableEq Name]

theorem filter_partition_length {α : Type} (p : α → Bool) (l : List α) :
    (l.filter p).length + (l.filter fun x => !p x).length = l.length := by
  induction l with
  | nil => rfl
  | cons a r ih =>
    by_cases h : p a = true
    · simp [List.filter, h]; omega
    · simp [List.filter, h]; omega

/-- the accumulator of `gcUsed` only grows -/
theorem gcUsed_mono (env : Env Oid) (hn : Name) (sh : Bool) (used : List (Name × Oid)) :
    ∀ acc keep, gcUsed env hn sh used acc = some keep → ∀ y ∈ acc, y ∈ keep := by
  induction used with
  | nil => intro acc keep h y hy; simp [gcUsed] at h; subst h; exact hy
  | cons p r ih =>
    intro acc keep h y hy
    obtain ⟨n, v⟩ := p
    simp only [gcUsed] at h
    split at h
    · exact ih acc keep h y hy
    · split at h
      · split at h
        · cases h
        · exact ih _ keep h y ((mem_union _ _ _).mpr (Or.inl ((mem_insertSet _ _ _).mpr (Or.inl hy))))
      · exact ih _ keep h y ((mem_insertSet _ _ _).mpr (Or.inl hy))

/-- every identifier of the store's algorithm in the used set is kept ... -/
theorem gcUsed_contains (env : Env Oid) (hn : Name) (sh : Bool) (used : List (Name × Oid)) :
    ∀ acc keep, gcUsed env hn sh used acc = some keep → ∀ v, (hn, v) ∈ used → v ∈ keep := by
  induction used with
  | nil => intro _ _ _ v hv; simp at hv
  | cons p r ih =>
    intro acc keep h v hv
    obtain ⟨n, w⟩ := p
    simp only [gcUsed] at h
    rcases List.mem_cons.mp hv with e | hv'
    · cases e
      simp only [ne_eq, not_true_eq_false, if_false] at h
      split at h
      · split at h
        · cases h
        · exact gcUsed_mono env hn sh r _ keep h v
            ((mem_union _ _ _).mpr (Or.inl ((mem_insertSet _ _ _).mpr (Or.inr rfl))))
      · exact gcUsed_mono env hn sh r _ keep h v ((mem_insertSet _ _ _).mpr (Or.inr rfl))
    · split at h
      · exact ih acc keep h v hv'
      · split at h
        · split at h
          · cases h
          · exact ih _ keep h v hv'
        · exact ih _ keep h v hv'

/-- ... and, when directories are expanded, so is every file listed by a used directory object -/
theorem gcUsed_expands (env : Env Oid) (hn : Name) (used : List (Name × Oid)) :
    ∀ acc keep, gcUsed env hn false used acc = some keep →
      ∀ d es f, (hn, d) ∈ used → env.isDir d = true → env.load d = some es → f ∈ es → f ∈ keep := by
  induction used with
  | nil => intro _ _ _ d _ _ hd; simp at hd
  | cons p r ih =>
    intro acc keep h d es f hd hdir hload hf
    obtain ⟨n, w⟩ := p
    simp only [gcUsed] at h
    rcases List.mem_cons.mp hd with e | hd'
    · cases e
      simp only [ne_eq, not_true_eq_false, if_false, hdir, Bool.not_false, Bool.and_self, if_true, hload] at h
      exact gcUsed_mono env hn false r _ keep h f ((mem_union _ _ _).mpr (Or.inr hf))
    · split at h
      · exact ih acc keep h d es f hd' hdir hload hf
      · split at h
        · split at h
          · cases h
          · exact ih _ keep h d es f hd' hdir hload hf
        · exact ih _ keep h d es f hd' hdir hload hf

/-- a read-only store is refused -/
theorem gc_readonly_refused (env : Env Oid) (hn : Name) (sh dry : Bool) (store : List Oid)
    (used : List (Name × Oid)) : gc env hn true sh dry store used = .permission := by
  simp [gc]

/-- a dry run removes nothing (and reports the number it would remove) -/
theorem gc_dry_noop (env : Env Oid) (hn : Name) (sh : Bool) (store : List Oid) (used : List (Name × Oid))
    (n : Nat) (s' : List Oid) (h : gc env hn false sh true store used = .ok n s') :
    s' = store ∧ ∃ keep, gcUsed env hn sh used [] = some keep ∧ n = (store.filter (· ∉ keep)).length := by
  simp only [gc, Bool.false_eq_true, if_false, if_true] at h
  split at h
  · cases h
  · rename_i keep hk
    injection h with h1 h2
    refine ⟨h2.symm, keep, hk, ?_⟩
    rw [← h1]
    exact filter_partition_length env.isDir (store.filter (· ∉ keep))

/-- **exactness**: a real run leaves exactly the kept objects and returns the number of the others -/
theorem gc_exact (env : Env Oid) (hn : Name) (sh : Bool) (store : List Oid) (used : List (Name × Oid))
    (n : Nat) (s' : List Oid) (h : gc env hn false sh false store used = .ok n s') :
    ∃ keep, gcUsed env hn sh used [] = some keep ∧
      s' = store.filter (· ∈ keep) ∧ n = (store.filter (· ∉ keep)).length := by
  simp only [gc, Bool.false_eq_true, if_false] at h
  split at h
  · cases h
  · rename_i keep hk
    injection h with h1 h2
    refine ⟨keep, hk, ?_, ?_⟩
    · rw [← h2]
      apply List.filter_congr
      intro o ho
      by_cases hkp : o ∈ keep
      · simp [hkp]
      · by_cases hd : env.isDir o = true
        · simp [hkp, ho, hd]
        · simp [hkp, ho, hd]
    · rw [← h1]
      exact filter_partition_length env.isDir (store.filter (· ∉ keep))

/-- **a used object is never removed** -/
theorem gc_keeps_used (env : Env Oid) (hn : Name) (sh dry : Bool) (store : List Oid)
    (used : List (Name × Oid)) (n : Nat) (s' : List Oid)
    (h : gc env hn false sh dry store used = .ok n s') (v : Oid) (hu : (hn, v) ∈ used) (hs : v ∈ store) :
    v ∈ s' := by
  cases dry with
  | true => rw [(gc_dry_noop env hn sh store used n s' h).1]; exact hs
  | false =>
    obtain ⟨keep, hk, hs', _⟩ := gc_exact env hn sh store used n s' h
    rw [hs']
    exact List.mem_filter.mpr ⟨hs, by simpa using gcUsed_contains env hn sh used [] keep hk v hu⟩

/-- **nor any file listed by a used directory object, when asked to expand** -/
theorem gc_keeps_listed (env : Env Oid) (hn : Name) (dry : Bool) (store : List Oid)
    (used : List (Name × Oid)) (n : Nat) (s' : List Oid)
    (h : gc env hn false false dry store used = .ok n s') (d : Oid) (es : List Oid) (f : Oid)
    (hu : (hn, d) ∈ used) (hd : env.isDir d = true) (hl : env.load d = some es) (hf : f ∈ es)
    (hs : f ∈ store) : f ∈ s' := by
  cases dry with
  | true => rw [(gc_dry_noop env hn false store used n s' h).1]; exact hs
  | false =>
    obtain ⟨keep, hk, hs', _⟩ := gc_exact env hn false store used n s' h
    rw [hs']
    exact List.mem_filter.mpr ⟨hs, by simpa using gcUsed_expands env hn used [] keep hk d es f hu hd hl hf⟩

/-- every object that is not kept is removed: identifiers of another algorithm protect nothing -/
theorem gc_removes_unused (env : Env Oid) (hn : Name) (sh : Bool) (store : List Oid)
    (used : List (Name × Oid)) (n : Nat) (s' : List Oid)
    (h : gc env hn false sh false store used = .ok n s') (keep : List Oid)
    (hk : gcUsed env hn sh used [] = some keep) (o : Oid) (ho : o ∉ keep) : o ∉ s' := by
  obtain ⟨keep', hk', hs', _⟩ := gc_exact env hn sh store used n s' h
  rw [hk] at hk'; cases hk'
  rw [hs']; simp [ho]

/-! non-vacuity -/
example : gc (Oid := Nat) (Name := Nat) { isDir := fun o => o ≥ 10, load := fun d => if d = 10 then some [1, 2] else none }
    0 false false false [1, 2, 3, 10, 11] [(0, 10), (1, 3)] = .ok 2 [1, 2, 10] := by decide

/-- **a dry run touches nothing at all** — not the objects (`gc_dry_noop`) and not the `.unpacked` leftovers next to
    directory objects either (the unrepaired code removed those while listing, F16) -/
theorem gc_dry_leftovers_untouched (env : Env Oid) (hn : Name) (ro sh : Bool) (store : List Oid)
    (used : List (Name × Oid)) (extras : List Oid) : gcLeftovers env hn ro sh true store used extras = extras := by
  simp [gcLeftovers]

/-- a refused run (read-only store) touches none either -/
theorem gc_readonly_leftovers_untouched (env : Env Oid) (hn : Name) (sh dry : Bool) (store : List Oid)
    (used : List (Name × Oid)) (extras : List Oid) : gcLeftovers env hn true sh dry store used extras = extras := by
  unfold gcLeftovers
  cases dry
  · simp [gc_readonly_refused]
  · simp

/-- a real run takes a leftover along exactly when it removes the directory object it sits next to: a leftover of a
    kept (used) directory object, or of something that is no stored directory object, stays -/
theorem gc_leftover_follows_object (env : Env Oid) (hn : Name) (sh : Bool) (store : List Oid)
    (used : List (Name × Oid)) (extras : List Oid) (n : Nat) (s' : List Oid)
    (h : gc env hn false sh false store used = .ok n s') (o : Oid) :
    o ∈ gcLeftovers env hn false sh false store used extras ↔
      (o ∈ extras ∧ ¬ (o ∈ store ∧ env.isDir o = true ∧ o ∉ s')) := by
  unfold gcLeftovers
  simp only [Bool.false_eq_true, if_false, h, List.mem_filter]
  constructor
  · rintro ⟨he, hc⟩
    refine ⟨he, ?_⟩
    rintro ⟨h1, h2, h3⟩
    simp [h1, h2, h3] at hc
  · rintro ⟨he, hn'⟩
    refine ⟨he, ?_⟩
    by_cases hs : o ∈ s'
    · simp [hs]
    · by_cases h1 : o ∈ store
      · by_cases h2 : env.isDir o = true
        · exact absurd ⟨h1, h2, hs⟩ hn'
        · simp [h2]
      · simp [h1]

end DvcData.Status
