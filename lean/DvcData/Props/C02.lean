import DvcData.Model.Build
import DvcData.Proofs.Path
import DvcData.Proofs.AList
/-!
# C02 — stage → store → checkout round trip; C01 — content addressing
-/
namespace DvcData.Build
open DvcData Path AList

theorem lookup_append_of_some {κ ν : Type} [DecidableEq κ] (a b : AList κ ν) (k : κ) (v : ν)
    (h : lookup a k = some v) : lookup (a ++ b) k = some v := by
  induction a with
  | nil => simp at h
  | cons p r ih =>
    obtain ⟨k', v'⟩ := p
    simp only [List.cons_append, lookup_cons] at h ⊢
    by_cases e : k' = k <;> simp_all

theorem lookup_append_of_none {κ ν : Type} [DecidableEq κ] (a b : AList κ ν) (k : κ)
    (h : lookup a k = none) : lookup (a ++ b) k = lookup b k := by
  induction a with
  | nil => rfl
  | cons p r ih =>
    obtain ⟨k', v'⟩ := p
    simp only [List.cons_append, lookup_cons] at h ⊢
    by_cases e : k' = k <;> simp_all

/-- adding never changes what is already stored under a name -/
theorem addObj_keeps (s : Store) (oid : Oid) (o : Obj) (k : Oid) (v : Obj) (h : s.lookup k = some v) :
    (addObj s oid o).lookup k = some v := by
  unfold addObj; split
  · exact h
  · exact lookup_append_of_some s _ k v h

theorem addObj_lookup_self (s : Store) (oid : Oid) (o : Obj) :
    (addObj s oid o).lookup oid = some o ∨ ∃ o', s.lookup oid = some o' ∧ (addObj s oid o).lookup oid = some o' := by
  unfold addObj
  split
  · rename_i hc
    right
    cases hl : s.lookup oid with
    | none => simp [AList.contains, hl] at hc
    | some o' => exact ⟨o', rfl, by simp⟩
  · rename_i hc
    left
    have hn : s.lookup oid = none := by
      cases hl : s.lookup oid with
      | none => rfl
      | some o' => simp [AList.contains, hl] at hc
    rw [lookup_append_of_none s _ oid hn]; simp [lookup_cons]

theorem foldl_addObj_keeps (H : Bytes → Oid) (l : List (Key × Bytes)) : ∀ (s : Store) (k : Oid) (v : Obj),
    s.lookup k = some v → (l.foldl (fun st e => addObj st (H e.2) (.file e.2)) s).lookup k = some v := by
  induction l with
  | nil => intro s k v h; exact h
  | cons e r ih => intro s k v h; exact ih _ k v (addObj_keeps s _ _ k v h)

/-- after staging, every file's bytes are stored under its hash — provided what was already under
    those names is right and equal hashes within the tree mean equal contents -/
theorem staged_files_present (H : Bytes → Oid) (T : List (Key × Bytes)) : ∀ (s : Store),
    (∀ e ∈ T, ∀ o, s.lookup (H e.2) = some o → o = .file e.2) →
    (∀ e1 ∈ T, ∀ e2 ∈ T, H e1.2 = H e2.2 → e1.2 = e2.2) →
    ∀ e ∈ T, (T.foldl (fun st e => addObj st (H e.2) (.file e.2)) s).lookup (H e.2) = some (.file e.2) := by
  induction T with
  | nil => intro s _ _ e he; simp at he
  | cons a r ih =>
    intro s hpre hinj e he
    simp only [List.foldl_cons]
    have hs1 : (addObj s (H a.2) (.file a.2)).lookup (H a.2) = some (.file a.2) := by
      rcases addObj_lookup_self s (H a.2) (.file a.2) with h | ⟨o', h1, h2⟩
      · exact h
      · rw [h2, hpre a (by simp) o' h1]
    rcases List.mem_cons.mp he with rfl | he'
    · exact foldl_addObj_keeps H r _ _ _ hs1
    · apply ih (addObj s (H a.2) (.file a.2)) ?_ (fun x hx y hy => hinj x (List.mem_cons_of_mem _ hx) y (List.mem_cons_of_mem _ hy)) e he'
      intro x hx o ho
      by_cases hxa : H x.2 = H a.2
      · rw [hxa, hs1] at ho
        injection ho with ho
        rw [← ho, hinj a (by simp) x (List.mem_cons_of_mem _ hx) hxa.symm]
      · have : (addObj s (H a.2) (.file a.2)).lookup (H x.2) = s.lookup (H x.2) := by
          unfold addObj; split
          · rfl
          · cases hl : s.lookup (H x.2) with
            | some v => exact lookup_append_of_some s _ _ v hl
            | none =>
              rw [lookup_append_of_none s _ _ hl]
              have hne : ¬ H a.2 = H x.2 := fun h => hxa h.symm
              simp [lookup_cons, hne]
        rw [this] at ho
        exact hpre x (List.mem_cons_of_mem _ hx) o ho

/-- **C02 (round trip).** Staging a tree into a store and materialising the staged listing from the
    store into a fresh location reproduces exactly the original relative paths with byte-identical
    contents; the reported file count and size match the data. -/
theorem roundtrip (H : Bytes → Oid) (D : List (Key × Oid) → Oid) (T : List (Key × Bytes)) (s : Store)
    (hpre : ∀ e ∈ T, ∀ o, s.lookup (H e.2) = some o → o = .file e.2)
    (hinj : ∀ e1 ∈ T, ∀ e2 ∈ T, H e1.2 = H e2.2 → e1.2 = e2.2) :
    materialise (stage H D T s).store (stage H D T s).entries = some T ∧
    (stage H D T s).nfiles = T.length ∧
    (stage H D T s).size = (T.map (·.2.length)).foldl (· + ·) 0 := by
  refine ⟨?_, rfl, rfl⟩
  have hfiles := staged_files_present H T s hpre hinj
  simp only [stage, materialise]
  have key : ∀ (l : List (Key × Bytes)), (∀ e ∈ l, e ∈ T) →
      (l.map fun e => (e.1, H e.2)).mapM (fun e =>
        match (addObj (T.foldl (fun st e => addObj st (H e.2) (.file e.2)) s) (D (T.map fun e => (e.1, H e.2)))
                 (.tree (T.map fun e => (e.1, H e.2)))).lookup e.2 with
        | some (.file d) => some (e.1, d)
        | _ => none) = some l := by
    intro l
    induction l with
    | nil => intro _; rfl
    | cons a r ih =>
      intro hsub
      have ha := hfiles a (hsub a (by simp))
      have ha' := addObj_keeps _ (D (T.map fun e => (e.1, H e.2))) (.tree (T.map fun e => (e.1, H e.2))) _ _ ha
      simp only [List.map_cons, List.mapM_cons, ha']
      rw [ih (fun x hx => hsub x (List.mem_cons_of_mem _ hx))]
      rfl
  exact key T (fun _ h => h)

/-- the relative key computed by string slicing is the key the path was built from -/
theorem relKey_slice (path : List Char) (k : Key) (hk : KeyOK k) :
    relKeyOf path (path ++ sep :: joinC k) = k := by
  unfold relKeyOf
  have hne : ¬ (path ++ sep :: joinC k = path) := by
    intro h
    have := congrArg List.length h
    simp at this
  simp only [hne, if_false]
  have : (path ++ sep :: joinC k).drop (path.length + 1) = joinC k := by
    induction path with
    | nil => rfl
    | cons c r ih => simpa using ih
  rw [this, splitC_joinC k hk]

/-! ## C01 — content addressing is an invariant of every operation -/

theorem addObj_addressed (H : Bytes → Oid) (D : List (Key × Oid) → Oid) (s : Store) (oid : Oid) (o : Obj)
    (hs : Addressed H D s) (ho : oid = nameOf H D o) : Addressed H D (addObj s oid o) := by
  unfold addObj
  split
  · exact hs
  · intro oid' o' hm
    rcases List.mem_append.mp hm with h | h
    · exact hs oid' o' h
    · simp at h; obtain ⟨rfl, rfl⟩ := h; exact ho

theorem foldl_files_addressed (H : Bytes → Oid) (D : List (Key × Oid) → Oid) (T : List (Key × Bytes)) :
    ∀ s, Addressed H D s → Addressed H D (T.foldl (fun st e => addObj st (H e.2) (.file e.2)) s) := by
  induction T with
  | nil => intro s h; exact h
  | cons a r ih => intro s h; exact ih _ (addObj_addressed H D s _ _ h rfl)

theorem step_preserves_addressed (H : Bytes → Oid) (D : List (Key × Oid) → Oid) (s : Store) (op : Op)
    (hs : Addressed H D s)
    (hsrc : ∀ src oids, op = .copyFrom src oids → Addressed H D src) : Addressed H D (step H D s op) := by
  cases op with
  | stageFile d => exact addObj_addressed H D s _ _ hs rfl
  | stageDir T =>
    simp only [step, stage]
    exact addObj_addressed H D _ _ _ (foldl_files_addressed H D T s hs) rfl
  | copyFrom src oids =>
    have hsa := hsrc src oids rfl
    simp only [step]
    induction oids generalizing s with
    | nil => exact hs
    | cons a r ih =>
      simp only [List.foldl_cons]
      apply ih
      · split
        · rename_i o ho
          exact addObj_addressed H D s a o hs (hsa a o (AList.mem_of_lookup src a o ho))
        · exact hs
      · intro src' oids' h; injection h with h1 h2; subst h1; exact hsa
  | migrateFrom src =>
    simp only [step]
    generalize hl : src = l
    have : ∀ (l : List (Oid × Obj)) (st : Store), Addressed H D st →
        Addressed H D (l.foldl (fun st e => let o := rehash H D src e.2; addObj st (nameOf H D o) o) st) := by
      intro l
      induction l with
      | nil => intro st h; exact h
      | cons a r ih => intro st h; exact ih _ (addObj_addressed H D st _ _ h rfl)
    subst hl
    exact this src s hs

/-- **C01.** After any finite sequence of stage / add / transfer / save / migrate operations every
    object of the store is filed under the digest of its own content (checked after every step) -/
theorem run_preserves_addressed (H : Bytes → Oid) (D : List (Key × Oid) → Oid) : ∀ (ops : List Op) (s : Store),
    Addressed H D s →
    (∀ op ∈ ops, ∀ src oids, op = .copyFrom src oids → Addressed H D src) →
    Addressed H D (ops.foldl (step H D) s) := by
  intro ops
  induction ops with
  | nil => intro s h _; exact h
  | cons op r ih =>
    intro s h hsrc
    exact ih _ (step_preserves_addressed H D s op h (hsrc op (by simp)))
      (fun o ho => hsrc o (List.mem_cons_of_mem _ ho))

end DvcData.Build
