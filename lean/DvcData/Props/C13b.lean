import DvcData.Model.IndexUpdate
import DvcData.Proofs.AList
import DvcData.Props.C08
/-
  C13 (carried-over hashes, directories): `update()` carries a directory's tree hash only when nothing that the diff
  reports strictly below the directory is added, deleted or modified (F26).
-/
namespace DvcData.IndexUpdate
open DvcData Path MetaInfo IndexDiff

/-- `k` is a proper prefix of `k'` -/
def ProperPrefix (k k' : Key) : Prop := ∃ p rest, k' = k ++ p :: rest

theorem mem_properPrefixes (k k' : Key) : k ∈ properPrefixes k' ↔ ProperPrefix k k' := by
  unfold properPrefixes ProperPrefix
  simp only [List.mem_map, List.mem_range]
  constructor
  · rintro ⟨i, hi, rfl⟩
    have hd : k'.drop i ≠ [] := by
      intro h
      have := congrArg List.length h
      simp at this; omega
    cases hdr : k'.drop i with
    | nil => exact absurd hdr hd
    | cons p rest => exact ⟨p, rest, by rw [← hdr, List.take_append_drop]⟩
  · rintro ⟨p, rest, rfl⟩
    exact ⟨k.length, by simp, by simp⟩

theorem mem_dirtyKeys (cs : List Change) (k : Key) :
    k ∈ dirtyKeys cs ↔ ∃ c ∈ cs, c.typ ≠ .unchanged ∧ ProperPrefix k (changeKey c) := by
  unfold dirtyKeys
  simp only [List.mem_flatMap, List.mem_filter, decide_eq_true_eq, mem_properPrefixes]
  constructor
  · rintro ⟨c, ⟨hc, ht⟩, hp⟩; exact ⟨c, hc, ht, hp⟩
  · rintro ⟨c, hc, ht, hp⟩; exact ⟨c, ⟨hc, ht⟩, hp⟩

/-- **what `update` carries over.**  A hash written into the new index at `k` is the old entry's hash of a change the
    metadata-only diff reported as unchanged at `k`; and if the new entry there is a directory, no change reported
    strictly below `k` is an addition, deletion or modification. -/
theorem carried_sound (cs : List Change) (k : Key) (h : Option HashInfo)
    (hl : AList.lookup (carriedOf cs) k = some h) :
    ∃ c ∈ cs, c.typ = .unchanged ∧
      (∃ ok o e, c.old = some (ok, o) ∧ c.new = some (k, e) ∧ h = o.hashInfo) ∧
      (newIsDir c = true → ∀ c' ∈ cs, c'.typ ≠ .unchanged → ¬ ProperPrefix k (changeKey c')) := by
  have hm := AList.mem_of_lookup _ k h hl
  unfold carriedOf at hm
  simp only [List.mem_filterMap] at hm
  obtain ⟨c, hc, hv⟩ := hm
  refine ⟨c, hc, ?_⟩
  split at hv
  · rename_i ht
    split at hv
    · rename_i ok o k2 e ho hn
      split at hv
      · exact absurd hv (by simp)
      · rename_i hcond
        simp only [Option.some.injEq, Prod.mk.injEq] at hv
        obtain ⟨rfl, rfl⟩ := hv
        refine ⟨ht, ⟨ok, o, e, ho, hn, rfl⟩, ?_⟩
        intro hd c' hc' ht' hp
        apply hcond
        simp only [Bool.and_eq_true, hd, true_and, List.contains_iff_mem]
        exact (mem_dirtyKeys cs k2).2 ⟨c', hc', ht', hp⟩
    · exact absurd hv (by simp)
  · exact absurd hv (by simp)

/-- `update` changes nothing but hashes: same keys in the same order, every other field of every entry untouched -/
theorem update_keys (old new : Index) : (update old new).map (·.1) = new.map (·.1) := by
  unfold update
  simp only [List.map_map]
  apply List.map_congr_left
  intro e _
  simp only [Function.comp]
  split <;> rfl

theorem update_fields (old new : Index) (k : Key) (e' : Entry) (hm : (k, e') ∈ update old new) :
    ∃ e, (k, e) ∈ new ∧ e'.mt = e.mt ∧ e'.loaded = e.loaded ∧
      (e'.hashInfo = e.hashInfo ∨
        AList.lookup (carriedOf (diff uOpts (some old) (some new))) k = some e'.hashInfo) := by
  unfold update at hm
  simp only [List.mem_map] at hm
  obtain ⟨⟨k0, e0⟩, hin, heq⟩ := hm
  split at heq
  · rename_i h hl
    simp only [Prod.mk.injEq] at heq
    obtain ⟨rfl, rfl⟩ := heq
    exact ⟨e0, hin, rfl, rfl, Or.inr hl⟩
  · simp only [Prod.mk.injEq] at heq
    obtain ⟨rfl, rfl⟩ := heq
    exact ⟨e0, hin, rfl, rfl, Or.inl rfl⟩

/-- **F26 as a theorem about the whole update**: a directory entry of the new index whose hash `update` replaced has
    nothing added, deleted or modified below it. -/
theorem update_dir_hash_only_if_clean (old new : Index) (k : Key) (e' : Entry)
    (hm : (k, e') ∈ update old new) :
    (∃ e, (k, e) ∈ new ∧ e'.hashInfo = e.hashInfo) ∨
    ∃ c ∈ diff uOpts (some old) (some new), c.typ = .unchanged ∧
      (∃ ok o e, c.old = some (ok, o) ∧ c.new = some (k, e) ∧ e'.hashInfo = o.hashInfo) ∧
      (newIsDir c = true → ∀ c' ∈ diff uOpts (some old) (some new), c'.typ ≠ .unchanged →
        ¬ ProperPrefix k (changeKey c')) := by
  obtain ⟨e, hin, _, _, hh⟩ := update_fields old new k e' hm
  rcases hh with hh | hh
  · exact Or.inl ⟨e, hin, hh⟩
  · exact Or.inr (carried_sound _ k _ hh)

theorem diff_uOpts (old new : Index) :
    diff uOpts (some old) (some new) =
      diffAt uOpts (some old) (some new) (max (maxDepth (some old)) (maxDepth (some new)) + 2) [] := by
  unfold diff uOpts
  simp

/-- **a carried hash crosses equal metadata only, at the whole-index level**: when `update` replaces the hash of the entry
    at `k`, both indexes have an entry at `k`, the new hash is the old entry's, and the metadata-only comparison of the two
    entries (`_diff_entry` with `meta_only`) says unchanged - so `update_copies_only_equal_meta` applies to them. -/
theorem update_carried_equal_meta (old new : Index) (k : Key) (e' : Entry) (hm : (k, e') ∈ update old new)
    (hne : ∀ e, (k, e) ∈ new → e'.hashInfo ≠ e.hashInfo) :
    ∃ o e, entryOf (some old) k = some o ∧ entryOf (some new) k = some e ∧ e'.hashInfo = o.hashInfo ∧
      diffEntry uOpts (some o) (some e) = .unchanged := by
  rcases update_dir_hash_only_if_clean old new k e' hm with ⟨e, hin, heq⟩ | ⟨c, hc, ht, ⟨ok, o, e, ho, hn, hh⟩, _⟩
  · exact absurd heq (hne e hin)
  · rw [diff_uOpts] at hc
    obtain ⟨k', htyp, hold, hnew, _, _⟩ := diffAt_sound uOpts (some old) (some new) _ _ c hc
    rw [hn] at hnew
    rw [ho] at hold
    cases hen : entryOf (some new) k' with
    | none => rw [hen] at hnew; simp at hnew
    | some en =>
      rw [hen] at hnew
      simp only [Option.map_some, Option.some.injEq, Prod.mk.injEq] at hnew
      obtain ⟨hk, rfl⟩ := hnew
      subst hk
      cases heo : entryOf (some old) k with
      | none => rw [heo] at hold; simp at hold
      | some eo =>
        rw [heo] at hold
        simp only [Option.map_some, Option.some.injEq, Prod.mk.injEq] at hold
        obtain ⟨_, rfl⟩ := hold
        refine ⟨o, e, by first | rfl | exact heo, by first | rfl | exact hen, hh, ?_⟩
        rw [← ht, htyp]
        first | rfl | rw [heo, hen]

/-! non-vacuity: a directory with a tree hash, a file below it modified -> not carried; nothing modified -> carried -/
private def hi (v : String) : Option HashInfo := some { name := some kMd5, value := some v.toList }
private def fmeta (n : Nat) : Option Meta := some { size := some n }
private def dmeta : Option Meta := some { isdir := true, size := some 4096 }
private def oldI : Index := [(["d".toList], { mt := dmeta, hashInfo := hi "t.dir" }), (["d".toList, "a".toList], { mt := fmeta 4, hashInfo := hi "h1" })]
private def newSame : Index := [(["d".toList], { mt := dmeta }), (["d".toList, "a".toList], { mt := fmeta 4 })]
private def newEdit : Index := [(["d".toList], { mt := dmeta }), (["d".toList, "a".toList], { mt := fmeta 8 })]

example : ((update oldI newSame).map fun e => e.2.hashInfo) = [hi "t.dir", hi "h1"] := by decide
example : ((update oldI newEdit).map fun e => e.2.hashInfo) = [none, none] := by decide

end DvcData.IndexUpdate
