import DvcData.Model.IndexDiff
import DvcData.Proofs.Sets
import DvcData.Proofs.AList
/-!
# C08 — index diff is exact: every key once, correctly classified, renames paired
-/
namespace DvcData.IndexDiff
open DvcData Path MetaInfo

def swapTyp : Typ → Typ
  | .add => .delete
  | .delete => .add
  | t => t

theorem cmpMeta_symm (c : Cmp) (a b : Meta) : cmpMeta c a b = cmpMeta c b a := by
  cases c
  · simp only [cmpMeta, metaEq]
    by_cases h : ({ a with remote := none } : Meta) = { b with remote := none }
    · simp [h]
    · have h' : ¬ ({ b with remote := none } : Meta) = { a with remote := none } := fun e => h e.symm
      simp [h, h']
  · simp only [cmpMeta]
    rw [Bool.beq_comm (a := a.isdir), Bool.beq_comm (a := a.isexec)]

theorem cmpMeta_refl (c : Cmp) (a : Meta) : cmpMeta c a a = true := by
  cases c <;> simp [cmpMeta, metaEq]

theorem diffMeta_swap (c : Cmp) (o n : Option Meta) : diffMeta c n o = swapTyp (diffMeta c o n) := by
  cases o <;> cases n <;> simp [diffMeta, swapTyp]
  rw [cmpMeta_symm]; split <;> rfl

theorem diffMeta_refl (c : Cmp) (m : Option Meta) : diffMeta c m m = .unchanged := by
  cases m <;> simp [diffMeta, cmpMeta_refl]

theorem hiEq_symm (a b : HashInfo) : hiEq a b = hiEq b a := by
  simp only [hiEq]
  by_cases h : a = b
  · simp [h]
  · have : ¬ b = a := fun e => h e.symm
    simp [h, this]

theorem diffHashInfo_swap (o n : Option HashInfo) : diffHashInfo n o = swapTyp (diffHashInfo o n) := by
  unfold diffHashInfo
  cases ho : hiTruthy o <;> cases hn : hiTruthy n <;> simp [swapTyp]
  · cases o <;> cases n <;> simp
  · cases o with
    | none => simp [hiTruthy] at ho
    | some a =>
      cases n with
      | none => simp [hiTruthy] at hn
      | some b => simp only; rw [hiEq_symm]; split <;> rfl

theorem diffHashInfo_refl (h : Option HashInfo) : diffHashInfo h h = .unchanged := by
  unfold diffHashInfo
  cases ht : hiTruthy h <;> cases h <;> simp [hiEq]

theorem diffMeta_unchanged_none (c : Cmp) (o n : Option Meta) (h : diffMeta c o n = .unchanged) :
    o.isNone = n.isNone := by
  cases o <;> cases n <;> simp_all [diffMeta]

theorem diffHashInfo_unchanged_truthy (o n : Option HashInfo) (h : diffHashInfo o n = .unchanged) :
    hiTruthy o = hiTruthy n := by
  unfold diffHashInfo at h
  cases ho : hiTruthy o <;> cases hn : hiTruthy n <;> simp_all

theorem decide3_swap : ∀ (mO hO : Bool) (e m h : Typ) (omN nmN oT nT : Bool),
    (m = .unchanged → omN = nmN) → (h = .unchanged → oT = nT) → e ≠ .modify → e ≠ .rename →
    decide3 mO hO (swapTyp e) (swapTyp m) (swapTyp h) nmN nT = swapTyp (decide3 mO hO e m h omN oT) := by
  intro mO hO e m h omN nmN oT nT h1 h2 h3 h4
  cases e <;> cases m <;> cases h <;> cases mO <;> cases hO <;>
    simp_all [decide3, swapTyp] <;> (repeat' split) <;> simp_all

theorem entryDiffOf_swap (a b : Bool) : entryDiffOf b a = swapTyp (entryDiffOf a b) := by
  cases a <;> cases b <;> rfl

theorem entryDiffOf_ne (a b : Bool) : entryDiffOf a b ≠ .modify ∧ entryDiffOf a b ≠ .rename := by
  cases a <;> cases b <;> simp [entryDiffOf]

/-- **swapping the sides swaps added and deleted and nothing else** (per entry) -/
theorem diffEntry_swap (o : Opts) (old new : Option Entry) :
    diffEntry o new old = swapTyp (diffEntry o old new) := by
  unfold diffEntry
  simp only
  rw [diffMeta_swap o.cmp (old.bind (·.mt)) (new.bind (·.mt)),
      diffHashInfo_swap (old.bind (·.hashInfo)) (new.bind (·.hashInfo)), entryDiffOf_swap]
  exact decide3_swap _ _ _ _ _ _ _ _ _
    (diffMeta_unchanged_none _ _ _) (diffHashInfo_unchanged_truthy _ _)
    (entryDiffOf_ne _ _).1 (entryDiffOf_ne _ _).2

/-- **an entry compared with itself is unchanged** -/
theorem diffEntry_refl (o : Opts) (e : Option Entry) : diffEntry o e e = .unchanged := by
  unfold diffEntry
  simp only [diffMeta_refl, diffHashInfo_refl]
  cases e <;> simp [entryDiffOf, decide3] <;> (repeat' split) <;> simp_all

theorem diffAt_succ (o : Opts) (old new : Option Index) (f : Nat) (k : Key) :
    diffAt o old new (f + 1) k = hereOf o old new k ++
      (if skipOf o old new k then []
       else if infoIsDir old k || infoIsDir new k then (childrenOf o old new k).flatMap (diffAt o old new f)
       else []) := rfl

/-- what a change reported at `k` looks like -/
theorem mem_hereOf (o : Opts) (old new : Option Index) (k : Key) (c : Change) (h : c ∈ hereOf o old new k) :
    c.typ = diffEntry o (entryOf old k) (entryOf new k) ∧
    c.old = (entryOf old k).map (k, ·) ∧ c.new = (entryOf new k).map (k, ·) ∧
    ((entryOf old k).isSome ∨ (entryOf new k).isSome) ∧ (c.typ = .unchanged → o.withUnchanged = true) := by
  unfold hereOf at h
  simp only at h
  split at h
  · simp at h
  · rename_i hnone
    split at h
    · simp at h
    · rename_i hun
      simp only [List.mem_singleton] at h
      subst h
      refine ⟨rfl, rfl, rfl, ?_, ?_⟩
      · cases h1 : entryOf old k <;> cases h2 : entryOf new k <;> simp_all
      · intro ht
        simp only at ht
        cases hw : o.withUnchanged with
        | true => rfl
        | false => exact absurd (by simp [ht, hw]) hun

/-- **soundness of the traversal**: every reported change sits at a key that has an entry on some
    side, carries exactly those entries, and is classified by `_diff_entry` of them -/
theorem diffAt_sound (o : Opts) (old new : Option Index) : ∀ (f : Nat) (k : Key) (c : Change),
    c ∈ diffAt o old new f k →
    ∃ k', c.typ = diffEntry o (entryOf old k') (entryOf new k') ∧
      c.old = (entryOf old k').map (k', ·) ∧ c.new = (entryOf new k').map (k', ·) ∧
      ((entryOf old k').isSome ∨ (entryOf new k').isSome) ∧
      (c.typ = .unchanged → o.withUnchanged = true) := by
  intro f
  induction f with
  | zero => intro k c h; simp [diffAt] at h
  | succ f ih =>
    intro k c h
    rw [diffAt_succ, List.mem_append] at h
    rcases h with h | h
    · exact ⟨k, mem_hereOf o old new k c h⟩
    · split at h
      · simp at h
      · split at h
        · obtain ⟨k2, _, hc⟩ := List.mem_flatMap.mp h
          exact ih k2 c hc
        · simp at h

theorem flatMap_nil_of_forall {α β : Type} (l : List α) (g : α → List β) (h : ∀ a ∈ l, g a = []) :
    l.flatMap g = [] := by
  induction l with
  | nil => rfl
  | cons a r ih => simp [List.flatMap_cons, h a (by simp), ih (fun x hx => h x (List.mem_cons_of_mem _ hx))]

theorem hereOf_self (o : Opts) (hu : o.withUnchanged = false) (i : Option Index) (k : Key) :
    hereOf o i i k = [] := by
  unfold hereOf
  simp only [diffEntry_refl, hu]
  split <;> simp

/-- **an index diffed with itself shows no change** -/
theorem diffAt_self (o : Opts) (hu : o.withUnchanged = false) (i : Option Index) : ∀ (f : Nat) (k : Key),
    diffAt o i i f k = [] := by
  intro f
  induction f with
  | zero => intro k; rfl
  | succ f ih =>
    intro k
    rw [diffAt_succ, hereOf_self o hu]
    simp only [List.nil_append]
    split
    · rfl
    · split
      · exact flatMap_nil_of_forall _ _ (fun a _ => ih a)
      · rfl

/-! ### completeness: every key with an entry on either side is visited -/

/-- well-formed index: an entry below another entry only if that one is a directory -/
def WFIdx (idx : Index) : Prop :=
  ∀ p suffix e e', suffix ≠ [] → idx.lookup (p ++ suffix) = some e → idx.lookup p = some e' →
    entryIsDir (fixMeta e') = true

def WFOpt : Option Index → Prop
  | none => True
  | some i => WFIdx i

theorem hasNode_of_lookup (idx : Index) (p suffix : Key) (e : Entry) (h : idx.lookup (p ++ suffix) = some e) :
    hasNode idx p = true := by
  unfold hasNode
  rw [List.any_eq_true]
  exact ⟨(p ++ suffix, e), AList.mem_of_lookup idx _ e h, by simp [List.isPrefixOf_iff_prefix]⟩

theorem entryOf_some (idx : Index) (k : Key) : (entryOf (some idx) k).isSome = true ↔ (idx.lookup k).isSome = true := by
  unfold entryOf optInfo infoAt
  simp only [Option.bind_some]
  constructor
  · intro h
    split at h
    · cases hl : idx.lookup k with
      | none => simp [hl] at h
      | some e => simp
    · simp at h
  · intro h
    cases hl : idx.lookup k with
    | none => simp [hl] at h
    | some e =>
      have := hasNode_of_lookup idx k [] e (by simpa using hl)
      simp [this]

theorem infoIsDir_of_below (idx : Index) (hw : WFIdx idx) (p suffix : Key) (hs : suffix ≠ []) (e : Entry)
    (h : idx.lookup (p ++ suffix) = some e) : infoIsDir (some idx) p = true := by
  unfold infoIsDir optInfo infoAt
  simp only [Option.bind_some, hasNode_of_lookup idx p suffix e h, if_true]
  cases hl : idx.lookup p with
  | none => rfl
  | some e' => simpa using hw p suffix e e' hs h hl

theorem stripPrefix_append (p rest : Key) : stripPrefix p (p ++ rest) = some rest := by
  induction p with
  | nil => rfl
  | cons a r ih => simp [stripPrefix, ih]

theorem mem_foldl_insertSet {α : Type} [DecidableEq α] (l : List α) : ∀ (acc : List α) (x : α),
    x ∈ l.foldl insertSet acc ↔ x ∈ acc ∨ x ∈ l := by
  induction l with
  | nil => intro acc x; simp
  | cons a r ih =>
    intro acc x
    simp only [List.foldl_cons, ih, mem_insertSet, List.mem_cons]
    constructor
    · rintro ((h | h) | h)
      · exact Or.inl h
      · exact Or.inr (Or.inl h)
      · exact Or.inr (Or.inr h)
    · rintro (h | h | h)
      · exact Or.inl (Or.inl h)
      · exact Or.inl (Or.inr h)
      · exact Or.inr h

theorem child_listed (idx : Index) (p : Key) (x : Part) (rest : Key) (e : Entry)
    (h : idx.lookup (p ++ x :: rest) = some e) : (p ++ [x]) ∈ lsAt (some idx) p := by
  unfold lsAt
  simp only [hasNode_of_lookup idx p (x :: rest) e h, if_true, List.mem_map]
  refine ⟨x, ?_, rfl⟩
  unfold childNames
  rw [mem_foldl_insertSet]
  right
  rw [List.mem_filterMap]
  exact ⟨(p ++ x :: rest, e), AList.mem_of_lookup idx _ e h, by simp [stripPrefix_append]⟩

theorem mem_unionKeys (a b : List Key) (x : Key) : x ∈ unionKeys a b ↔ x ∈ a ∨ x ∈ b := by
  unfold unionKeys; exact mem_foldl_insertSet b a x

/-- a key that has an entry on some side, seen from one of its prefixes -/
def HasBelow (idx : Option Index) (k : Key) : Prop :=
  match idx with
  | none => False
  | some i => (i.lookup k).isSome = true

theorem child_in_children (o : Opts) (hs : o.shallow = false) (old new : Option Index) (p : Key) (x : Part)
    (rest : Key) (h : HasBelow old (p ++ x :: rest) ∨ HasBelow new (p ++ x :: rest)) :
    (p ++ [x]) ∈ childrenOf o old new p := by
  unfold childrenOf itemsOf
  simp only [hs, Bool.false_and, Bool.false_eq_true, if_false]
  rw [mem_unionKeys]
  rcases h with h | h
  · left
    cases old with
    | none => simp [HasBelow] at h
    | some i =>
      simp only [HasBelow] at h
      cases hl : i.lookup (p ++ x :: rest) with
      | none => simp [hl] at h
      | some e => exact child_listed i p x rest e hl
  · right
    cases new with
    | none => simp [HasBelow] at h
    | some i =>
      simp only [HasBelow] at h
      cases hl : i.lookup (p ++ x :: rest) with
      | none => simp [hl] at h
      | some e => exact child_listed i p x rest e hl

theorem isDir_of_below (idx : Option Index) (hw : WFOpt idx) (p suffix : Key) (hs : suffix ≠ [])
    (h : HasBelow idx (p ++ suffix)) : infoIsDir idx p = true := by
  cases idx with
  | none => simp [HasBelow] at h
  | some i =>
    simp only [HasBelow] at h
    cases hl : i.lookup (p ++ suffix) with
    | none => simp [hl] at h
    | some e => exact infoIsDir_of_below i hw p suffix hs e hl

/-- **completeness**: with a consistent option set (no unchanged-subtree shortcut, not shallow),
    whatever `_diff_entry` reports for a key that has an entry on either side is part of the
    output, provided the traversal starts at a prefix of the key with enough fuel -/
theorem diffAt_complete (o : Opts) (hs : o.shallow = false)
    (hk : o.hashOnly = false ∨ o.withUnchanged = true) (old new : Option Index)
    (hwo : WFOpt old) (hwn : WFOpt new) :
    ∀ (suffix p : Key) (f : Nat), suffix.length < f →
      (HasBelow old (p ++ suffix) ∨ HasBelow new (p ++ suffix)) →
      ∀ c ∈ hereOf o old new (p ++ suffix), c ∈ diffAt o old new f p := by
  intro suffix
  induction suffix with
  | nil =>
    intro p f hf _ c hc
    cases f with
    | zero => simp at hf
    | succ f =>
      rw [diffAt_succ, List.mem_append]
      left; simpa using hc
  | cons x rest ih =>
    intro p f hf hb c hc
    cases f with
    | zero => simp at hf
    | succ f =>
      rw [diffAt_succ, List.mem_append]
      right
      have hskip : skipOf o old new p = false := by
        unfold skipOf
        rcases hk with h | h <;> simp [h]
      have hdir : (infoIsDir old p || infoIsDir new p) = true := by
        rcases hb with h | h
        · simp [isDir_of_below old hwo p (x :: rest) (by simp) h]
        · simp [isDir_of_below new hwn p (x :: rest) (by simp) h]
      simp only [hskip, Bool.false_eq_true, if_false, hdir, if_true]
      rw [List.mem_flatMap]
      refine ⟨p ++ [x], child_in_children o hs old new p x rest hb, ?_⟩
      have e : p ++ x :: rest = (p ++ [x]) ++ rest := by simp
      rw [e] at hb hc
      exact ih (p ++ [x]) f (by simp at hf; omega) hb c hc

/-! ### rename detection -/

/-! ### every key is reported at most once -/

/-- the key a change is reported for -/
def nodeKey (c : Change) : Option Key :=
  match c.old with
  | some p => some p.1
  | none => c.new.map (·.1)

theorem nodeKey_hereOf (o : Opts) (old new : Option Index) (k : Key) (c : Change) (h : c ∈ hereOf o old new k) :
    nodeKey c = some k := by
  obtain ⟨_, ho, hn, hsome, _⟩ := mem_hereOf o old new k c h
  unfold nodeKey
  rw [ho, hn]
  cases h1 : entryOf old k with
  | some e => rfl
  | none =>
    cases h2 : entryOf new k with
    | some e => rfl
    | none => simp [h1, h2] at hsome

theorem nodup_insertSet {α : Type} [DecidableEq α] (s : List α) (x : α) (h : s.Nodup) : (insertSet s x).Nodup := by
  unfold insertSet
  split
  · exact h
  · rename_i hx
    rw [List.nodup_append]
    refine ⟨h, by simp, ?_⟩
    intro a ha b hb
    simp only [List.mem_singleton] at hb
    subst hb
    intro e; subst e; exact hx ha

theorem nodup_foldl_insertSet {α : Type} [DecidableEq α] (l : List α) : ∀ (acc : List α), acc.Nodup →
    (l.foldl insertSet acc).Nodup := by
  induction l with
  | nil => intro acc h; exact h
  | cons a r ih => intro acc h; exact ih _ (nodup_insertSet acc a h)

theorem lsAt_spec (idx : Option Index) (k : Key) :
    (lsAt idx k).Nodup ∧ ∀ c ∈ lsAt idx k, ∃ p, c = k ++ [p] := by
  unfold lsAt
  cases idx with
  | none => simp
  | some i =>
    simp only
    split
    · constructor
      · have hn : (childNames i k).Nodup := nodup_foldl_insertSet _ [] (by simp)
        unfold List.Nodup at hn ⊢
        rw [List.pairwise_map]
        exact hn.imp (fun {a b} hab e => hab (by simpa using e))
      · intro c hc
        obtain ⟨p, _, rfl⟩ := List.mem_map.mp hc
        exact ⟨p, rfl⟩
    · simp

theorem itemsOf_cases (o : Opts) (idx : Option Index) (k : Key) (e : Option Entry) :
    itemsOf o idx k e = [] ∨ itemsOf o idx k e = lsAt idx k := by
  unfold itemsOf
  cases e with
  | none => simp
  | some e => cases h1 : o.shallow <;> cases h2 : hiTruthy e.hashInfo <;> simp [h2]

theorem childrenOf_spec (o : Opts) (old new : Option Index) (k : Key) :
    (childrenOf o old new k).Nodup ∧ ∀ c ∈ childrenOf o old new k, ∃ p, c = k ++ [p] := by
  unfold childrenOf unionKeys
  constructor
  · apply nodup_foldl_insertSet
    rcases itemsOf_cases o old k (entryOf old k) with h | h <;> rw [h]
    · simp
    · exact (lsAt_spec old k).1
  · intro c hc
    rw [mem_foldl_insertSet] at hc
    rcases hc with hc | hc
    · rcases itemsOf_cases o old k (entryOf old k) with h | h <;> rw [h] at hc
      · simp at hc
      · exact (lsAt_spec old k).2 c hc
    · rcases itemsOf_cases o new k (entryOf new k) with h | h <;> rw [h] at hc
      · simp at hc
      · exact (lsAt_spec new k).2 c hc

/-- everything the traversal reports from node `k` downwards sits at a key that extends `k` -/
theorem diffAt_below (o : Opts) (old new : Option Index) : ∀ (f : Nat) (k : Key) (c : Change),
    c ∈ diffAt o old new f k → ∃ k', nodeKey c = some k' ∧ k <+: k' := by
  intro f
  induction f with
  | zero => intro k c h; simp [diffAt] at h
  | succ f ih =>
    intro k c h
    rw [diffAt_succ] at h
    rcases List.mem_append.mp h with h | h
    · exact ⟨k, nodeKey_hereOf o old new k c h, List.prefix_refl k⟩
    · split at h
      · simp at h
      · split at h
        · obtain ⟨ch, hch, hc⟩ := List.mem_flatMap.mp h
          obtain ⟨p, rfl⟩ := (childrenOf_spec o old new k).2 ch hch
          obtain ⟨k', hk', hpre⟩ := ih _ c hc
          exact ⟨k', hk', (List.prefix_append k [p]).trans hpre⟩
        · simp at h

/-- **exactly once**: no key is reported twice by the traversal — for any two indexes, options and depth -/
theorem diffAt_nodup (o : Opts) (old new : Option Index) : ∀ (f : Nat) (k : Key),
    (diffAt o old new f k).Pairwise fun a b => nodeKey a ≠ nodeKey b := by
  intro f
  induction f with
  | zero => intro k; simp [diffAt]
  | succ f ih =>
    intro k
    rw [diffAt_succ, List.pairwise_append]
    refine ⟨?_, ?_, ?_⟩
    · -- at most one change at `k` itself
      unfold hereOf
      simp only
      split
      · simp
      · split <;> simp
    · split
      · simp
      · split
        · rw [List.pairwise_flatMap]
          refine ⟨fun ch _ => ih ch, ?_⟩
          have hnd := (childrenOf_spec o old new k).1
          have hform := (childrenOf_spec o old new k).2
          unfold List.Nodup at hnd
          -- distinct children head disjoint sub-trees
          have : ∀ c1 c2, c1 ∈ childrenOf o old new k → c2 ∈ childrenOf o old new k → c1 ≠ c2 →
              ∀ x ∈ diffAt o old new f c1, ∀ y ∈ diffAt o old new f c2, nodeKey x ≠ nodeKey y := by
            intro c1 c2 h1 h2 hne x hx y hy hxy
            obtain ⟨p1, rfl⟩ := hform c1 h1
            obtain ⟨p2, rfl⟩ := hform c2 h2
            obtain ⟨k1, hk1, hpre1⟩ := diffAt_below o old new f _ x hx
            obtain ⟨k2, hk2, hpre2⟩ := diffAt_below o old new f _ y hy
            rw [hk1, hk2] at hxy
            injection hxy with hxy
            subst hxy
            have hle : (k ++ [p1]).length ≤ (k ++ [p2]).length := by simp
            have := List.prefix_of_prefix_length_le hpre1 hpre2 hle
            exact hne (this.eq_of_length (by simp))
          exact List.Pairwise.imp_of_mem (fun {a b} ha hb hab => this a b ha hb hab) hnd
        · simp
    · -- the change at `k` and the changes below it
      intro a ha b hb hab
      have hka := nodeKey_hereOf o old new k a ha
      split at hb
      · simp at hb
      · split at hb
        · obtain ⟨ch, hch, hc⟩ := List.mem_flatMap.mp hb
          obtain ⟨p, rfl⟩ := (childrenOf_spec o old new k).2 ch hch
          obtain ⟨k', hk', hpre⟩ := diffAt_below o old new f _ b hc
          rw [hka, hk'] at hab
          injection hab with hab
          subst hab
          have := hpre.length_le
          simp at this
          omega
        · simp at hb

def newHash (c : Change) : Option HashInfo := c.new.bind (·.2.hashInfo)
def oldHash (c : Change) : Option HashInfo := c.old.bind (·.2.hashInfo)

/-- **every rename pairs one deletion and one addition carrying the same (truthy) hash** -/
theorem pairRenames_sound : ∀ (adds dels : List Change) (c : Change),
    c ∈ (pairRenames adds dels).1 → c.typ = .rename →
    (∀ a ∈ adds, a.typ ≠ .rename) →
    ∃ a ∈ adds, ∃ d ∈ dels, c.old = d.old ∧ c.new = a.new ∧ hiTruthy (newHash a) = true ∧ oldHash d = newHash a := by
  intro adds
  induction adds with
  | nil => intro dels c h; simp [pairRenames] at h
  | cons a r ih =>
    intro dels c h ht hn
    simp only [pairRenames] at h
    split at h
    · rename_i d hm
      simp only [List.mem_cons] at h
      split at hm
      · rename_i htr
        rcases h with rfl | h
        · have hd := List.mem_of_find?_eq_some hm
          have hp := List.find?_some hm
          simp at hp
          exact ⟨a, by simp, d, hd, rfl, rfl, htr, hp⟩
        · obtain ⟨a', ha', d', hd', rest⟩ := ih (dels.erase d) c h ht (fun x hx => hn x (List.mem_cons_of_mem _ hx))
          exact ⟨a', List.mem_cons_of_mem _ ha', d', List.mem_of_mem_erase hd', rest⟩
      · cases hm
    · simp only [List.mem_cons] at h
      rcases h with rfl | h
      · exact absurd ht (hn c (by simp))
      · obtain ⟨a', ha', d', hd', rest⟩ := ih dels c h ht (fun x hx => hn x (List.mem_cons_of_mem _ hx))
        exact ⟨a', List.mem_cons_of_mem _ ha', d', hd', rest⟩

/-- **no key is lost or duplicated**: the old sides of the result are exactly the old sides of the
    deletions, the new sides exactly the new sides of the additions (as multisets) -/
theorem pairRenames_preserves : ∀ (adds dels : List Change),
    (∀ a ∈ adds, a.old = none) → (∀ d ∈ dels, d.new = none) →
    (((pairRenames adds dels).1 ++ (pairRenames adds dels).2).filterMap (·.old)).Perm (dels.filterMap (·.old)) ∧
    (((pairRenames adds dels).1 ++ (pairRenames adds dels).2).filterMap (·.new)).Perm (adds.filterMap (·.new)) := by
  intro adds
  induction adds with
  | nil =>
    intro dels _ hd
    simp only [pairRenames, List.nil_append, List.filterMap_nil]
    refine ⟨List.Perm.refl _, ?_⟩
    rw [List.filterMap_eq_nil_iff.mpr (fun d h => hd d h)]
  | cons a r ih =>
    intro dels ha hd
    have ha' : ∀ x ∈ r, x.old = none := fun x hx => ha x (List.mem_cons_of_mem _ hx)
    simp only [pairRenames]
    split
    · rename_i d hm
      have hdm : d ∈ dels := by
        split at hm
        · exact List.mem_of_find?_eq_some hm
        · cases hm
      obtain ⟨i1, i2⟩ := ih (dels.erase d) ha' (fun x hx => hd x (List.mem_of_mem_erase hx))
      have hperm : dels.Perm (d :: dels.erase d) := List.perm_cons_erase hdm
      constructor
      · simp only [List.cons_append, List.filterMap_cons]
        have := (hperm.filterMap (·.old)).symm
        simp only [List.filterMap_cons] at this
        cases hdo : d.old with
        | none => simp only [hdo] at this ⊢; exact i1.trans this
        | some v => simp only [hdo] at this ⊢; exact (List.Perm.cons v i1).trans this
      · simp only [List.cons_append, List.filterMap_cons]
        cases han : a.new with
        | none => simpa using i2
        | some v => simpa using List.Perm.cons v i2
    · obtain ⟨i1, i2⟩ := ih dels ha' hd
      constructor
      · simp only [List.cons_append, List.filterMap_cons, ha a (by simp)]
        exact i1
      · simp only [List.cons_append, List.filterMap_cons]
        cases han : a.new with
        | none => simpa using i2
        | some v => simpa using List.Perm.cons v i2

theorem pairRenames_rest_sub : ∀ (adds dels : List Change) (d : Change),
    d ∈ (pairRenames adds dels).2 → d ∈ dels := by
  intro adds
  induction adds with
  | nil => intro dels d h; simpa [pairRenames] using h
  | cons a r ih =>
    intro dels d h
    simp only [pairRenames] at h
    split at h
    · exact List.mem_of_mem_erase (ih _ d h)
    · exact ih _ d h

/-- **no matching pair is left unpaired**: an addition that stays an addition has no deletion with
    the same truthy hash among the deletions that stay deletions -/
theorem pairRenames_maximal : ∀ (adds dels : List Change) (a : Change),
    a ∈ (pairRenames adds dels).1 → a.typ = .add → (∀ x ∈ adds, x.typ = .add) →
    hiTruthy (newHash a) = true → ∀ d ∈ (pairRenames adds dels).2, oldHash d ≠ newHash a := by
  intro adds
  induction adds with
  | nil => intro dels a h; simp [pairRenames] at h
  | cons x r ih =>
    intro dels a h hta hall htr d hd
    simp only [pairRenames] at h hd
    split at h
    · rename_i d0 hm
      simp only [hm] at hd
      simp only [List.mem_cons] at h
      rcases h with rfl | h
      · simp at hta
      · exact ih _ a h hta (fun y hy => hall y (List.mem_cons_of_mem _ hy)) htr d hd
    · rename_i hm
      simp only [hm] at hd
      simp only [List.mem_cons] at h
      rcases h with rfl | h
      · intro heq
        have hdm := pairRenames_rest_sub r dels d hd
        simp only [newHash] at htr
        simp only [htr, if_true] at hm
        have := List.find?_eq_none.mp hm d hdm
        simp only [decide_eq_true_eq] at this
        exact this (by simpa [oldHash, newHash] using heq)
      · exact ih _ a h hta (fun y hy => hall y (List.mem_cons_of_mem _ hy)) htr d hd

/-! non-vacuity -/
example : diffEntry {} (some { mt := some { size := some 1 }, hashInfo := none, loaded := none })
    (some { mt := some { size := some 2 }, hashInfo := none, loaded := none }) = .modify := by decide

end DvcData.IndexDiff
