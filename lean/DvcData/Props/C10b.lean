import DvcData.Model.LinkRecord
import DvcData.Proofs.AList
import DvcData.Proofs.Tree
/-
  C10, "the link record it saves matches the resulting workspace".

  `fromChanges_lookup`: the dictionary checkout assembles from its own bookkeeping (`updated_mtimes` + the unchanged entries'
  recorded metadata) is, as a finite map, exactly `{path: mtime}` of the files that are in the workspace afterwards - provided
  each recorded mtime is the file's mtime now and the two lists together name exactly the files that are there.
  `record_token_matches`: hence what `_tokenize_mtimes` hashes for the record is what `get_mtime_and_size` hashes when it walks
  the directory (same canonical item list), so `get_unused_links` recognises the untouched directory.
-/
namespace DvcData.LinkRecord
open DvcData Json List

theorem keys_set (d : Dict) (k : Path) (v : Mtime) :
    AList.keys (d.set k v) = if k ∈ AList.keys d then AList.keys d else AList.keys d ++ [k] := by
  induction d with
  | nil => simp [AList.set, AList.keys]
  | cons p r ih =>
    obtain ⟨k', v'⟩ := p
    unfold AList.keys at ih ⊢
    simp only [AList.set]
    by_cases h : k' = k
    · subst h; simp
    · have h' : ¬ k = k' := fun e => h e.symm
      simp only [h, if_false, map_cons, mem_cons, h', false_or, ih]
      split <;> simp

theorem wf_set (d : Dict) (k : Path) (v : Mtime) (h : AList.WF d) : AList.WF (d.set k v) := by
  unfold AList.WF at *
  rw [keys_set]
  split
  · exact h
  · rename_i hk
    exact nodup_append.mpr ⟨h, by simp, by
      intro a ha b hb
      simp only [mem_singleton] at hb
      subst hb
      intro e; subst e; exact hk ha⟩

theorem wf_ofUpdated (updated : List (Path × Mtime)) : AList.WF (ofUpdated updated) := by
  unfold ofUpdated
  have : ∀ (l : List (Path × Mtime)) (m : Dict), AList.WF m → AList.WF (l.foldl (fun m e => m.set e.1 e.2) m) := by
    intro l
    induction l with
    | nil => intro m h; exact h
    | cons e r ih => intro m h; exact ih _ (wf_set m e.1 e.2 h)
  exact this updated [] (by simp [AList.WF, AList.keys])

theorem wf_addUnchanged (stat : Path → Option Mtime) (m : Dict) (e : Path × Option Mtime) (h : AList.WF m) :
    AList.WF (addUnchanged stat m e) := by
  unfold addUnchanged
  split
  · exact h
  · cases e.2 with
    | some t => exact wf_set m e.1 t h
    | none =>
      simp only
      cases stat e.1 with
      | some t => exact wf_set m e.1 t h
      | none => exact h

theorem wf_fromChanges (stat : Path → Option Mtime) (updated : List (Path × Mtime)) (unchanged : List (Path × Option Mtime)) :
    AList.WF (fromChanges stat updated unchanged) := by
  unfold fromChanges
  have : ∀ (l : List (Path × Option Mtime)) (m : Dict), AList.WF m → AList.WF (l.foldl (addUnchanged stat) m) := by
    intro l
    induction l with
    | nil => intro m h; exact h
    | cons e r ih => intro m h; exact ih _ (wf_addUnchanged stat m e h)
  exact this unchanged _ (wf_ofUpdated updated)

/-! ### what the assembled dictionary binds -/

/-- soundness and completeness of `ofUpdated` against the workspace, for paths whose recorded stat is current -/
theorem ofUpdated_spec (ws : Dict) (updated : List (Path × Mtime))
    (hu : ∀ e ∈ updated, ws.lookup e.1 = some e.2) :
    (∀ p t, (ofUpdated updated).lookup p = some t → ws.lookup p = some t) ∧
    (∀ e ∈ updated, (ofUpdated updated).lookup e.1 = ws.lookup e.1) := by
  unfold ofUpdated
  have : ∀ (l : List (Path × Mtime)) (m : Dict), (∀ e ∈ l, ws.lookup e.1 = some e.2) →
      (∀ p t, m.lookup p = some t → ws.lookup p = some t) →
      (∀ p t, (l.foldl (fun m e => m.set e.1 e.2) m).lookup p = some t → ws.lookup p = some t) ∧
      (∀ e ∈ l, (l.foldl (fun m e => m.set e.1 e.2) m).lookup e.1 = ws.lookup e.1) ∧
      (∀ p, (m.lookup p).isSome = true → ((l.foldl (fun m e => m.set e.1 e.2) m).lookup p).isSome = true) := by
    intro l
    induction l with
    | nil => intro m _ hs; exact ⟨hs, by simp, fun _ h => h⟩
    | cons e r ih =>
      intro m hl hs
      simp only [foldl_cons]
      have hs' : ∀ p t, (m.set e.1 e.2).lookup p = some t → ws.lookup p = some t := by
        intro p t hp
        rw [AList.lookup_set] at hp
        by_cases h : e.1 = p
        · simp only [h, if_true, Option.some.injEq] at hp
          rw [← h, hl e (by simp), hp]
        · simp only [h, if_false] at hp; exact hs p t hp
      obtain ⟨i1, i2, i3⟩ := ih (m.set e.1 e.2) (fun x hx => hl x (mem_cons_of_mem _ hx)) hs'
      refine ⟨i1, ?_, ?_⟩
      · intro x hx
        rcases mem_cons.mp hx with rfl | hx
        · have hsome : ((m.set x.1 x.2).lookup x.1).isSome = true := by rw [AList.lookup_set]; simp
          have := i3 x.1 hsome
          cases hq : (foldl (fun m e => m.set e.1 e.2) (m.set x.1 x.2) r).lookup x.1 with
          | none => rw [hq] at this; cases this
          | some t => rw [i1 x.1 t hq]
        · exact i2 x hx
      · intro p hp
        apply i3
        rw [AList.lookup_set]
        by_cases h : e.1 = p <;> simp [h, hp]
  obtain ⟨a, b, _⟩ := this updated [] hu (by intro p t h; simp at h)
  exact ⟨a, b⟩

theorem addUnchanged_keeps (stat : Path → Option Mtime) (m : Dict) (e : Path × Option Mtime) (p : Path) (t : Mtime)
    (h : m.lookup p = some t) : (addUnchanged stat m e).lookup p = some t := by
  unfold addUnchanged
  by_cases hc : m.contains e.1 = true
  · simp [hc, h]
  · have hc' : m.contains e.1 = false := by simpa using hc
    have hne : e.1 ≠ p := by
      intro e'; rw [e'] at hc'
      simp [AList.contains, h] at hc'
    simp only [hc', Bool.false_eq_true, if_false]
    cases e.2 with
    | some t' => simp only; rw [AList.lookup_set]; simp [hne, h]
    | none =>
      simp only
      cases stat e.1 with
      | some t' => simp only; rw [AList.lookup_set]; simp [hne, h]
      | none => exact h

/-- **the assembled dictionary is the workspace's.**  `ws` = the files under the checkout directory afterwards;
    every stat recorded after a write is current (`hu`), every mtime the dry build recorded for an unchanged file is current
    (`hn`), and the two lists together name exactly the files that are there (`hcov`; a listed path that is gone is skipped) -/
theorem fromChanges_lookup (ws : Dict) (updated : List (Path × Mtime)) (unchanged : List (Path × Option Mtime))
    (hu : ∀ e ∈ updated, ws.lookup e.1 = some e.2)
    (hn : ∀ e ∈ unchanged, ∀ t, e.2 = some t → ws.lookup e.1 = some t)
    (hcov : ∀ p t, ws.lookup p = some t → p ∈ updated.map (·.1) ∨ p ∈ unchanged.map (·.1)) :
    ∀ p, (fromChanges ws.lookup updated unchanged).lookup p = ws.lookup p := by
  obtain ⟨hsound0, hcomp0⟩ := ofUpdated_spec ws updated hu
  -- the fold over the unchanged entries keeps soundness, and binds every listed path that is there
  have key : ∀ (l : List (Path × Option Mtime)) (m : Dict), (∀ e ∈ l, ∀ t, e.2 = some t → ws.lookup e.1 = some t) →
      (∀ p t, m.lookup p = some t → ws.lookup p = some t) →
      (∀ p t, (l.foldl (addUnchanged ws.lookup) m).lookup p = some t → ws.lookup p = some t) ∧
      (∀ e ∈ l, (l.foldl (addUnchanged ws.lookup) m).lookup e.1 = ws.lookup e.1) ∧
      (∀ p t, m.lookup p = some t → (l.foldl (addUnchanged ws.lookup) m).lookup p = some t) := by
    intro l
    induction l with
    | nil => intro m _ hs; exact ⟨hs, by simp, fun _ _ h => h⟩
    | cons e r ih =>
      intro m hl hs
      simp only [foldl_cons]
      have hs' : ∀ p t, (addUnchanged ws.lookup m e).lookup p = some t → ws.lookup p = some t := by
        intro p t hp
        unfold addUnchanged at hp
        by_cases hc : m.contains e.1 = true
        · simp only [hc, if_true] at hp; exact hs p t hp
        · have hc' : m.contains e.1 = false := by simpa using hc
          simp only [hc', Bool.false_eq_true, if_false] at hp
          cases he : e.2 with
          | some t' =>
            simp only [he] at hp
            rw [AList.lookup_set] at hp
            by_cases h : e.1 = p
            · simp only [h, if_true, Option.some.injEq] at hp
              rw [← h, hl e (by simp) t' he, hp]
            · simp only [h, if_false] at hp; exact hs p t hp
          | none =>
            simp only [he] at hp
            cases hst : ws.lookup e.1 with
            | some t' =>
              simp only [hst] at hp
              rw [AList.lookup_set] at hp
              by_cases h : e.1 = p
              · simp only [h, if_true, Option.some.injEq] at hp
                rw [← h, hst, hp]
              · simp only [h, if_false] at hp; exact hs p t hp
            | none => simp only [hst] at hp; exact hs p t hp
      obtain ⟨i1, i2, i3⟩ := ih (addUnchanged ws.lookup m e) (fun x hx => hl x (mem_cons_of_mem _ hx)) hs'
      refine ⟨i1, ?_, ?_⟩
      · intro x hx
        rcases mem_cons.mp hx with rfl | hx
        · -- the entry itself: bound now (or was bound already), unless the path is gone
          cases hw : ws.lookup x.1 with
          | none =>
            cases hq : (foldl (addUnchanged ws.lookup) (addUnchanged ws.lookup m x) r).lookup x.1 with
            | none => rfl
            | some t => rw [i1 x.1 t hq] at hw; cases hw
          | some t =>
            apply i3
            unfold addUnchanged
            by_cases hc : m.contains x.1 = true
            · simp only [hc, if_true]
              obtain ⟨t', ht'⟩ := (AList.contains_eq_true_iff m x.1).mp hc
              rw [ht', ← hw, hs x.1 t' ht']
            · have hc' : m.contains x.1 = false := by simpa using hc
              simp only [hc', Bool.false_eq_true, if_false]
              cases he : x.2 with
              | some t' =>
                simp only
                rw [AList.lookup_set]
                simp only [if_true]
                rw [← hw, hl x (by simp) t' he]
              | none => simp only [hw]; rw [AList.lookup_set]; simp
        · exact i2 x hx
      · intro p t hp
        exact i3 p t (addUnchanged_keeps ws.lookup m e p t hp)
  unfold fromChanges
  obtain ⟨ksound, kcomp, kkeep⟩ := key unchanged (ofUpdated updated) hn hsound0
  intro p
  cases hw : ws.lookup p with
  | none =>
    cases hq : (foldl (addUnchanged ws.lookup) (ofUpdated updated) unchanged).lookup p with
    | none => rfl
    | some t => rw [ksound p t hq] at hw; cases hw
  | some t =>
    rcases hcov p t hw with hp | hp
    · obtain ⟨e, he, rfl⟩ := mem_map.mp hp
      have := hcomp0 e he
      rw [hw] at this
      exact kkeep e.1 t this
    · obtain ⟨e, he, rfl⟩ := mem_map.mp hp
      rw [kcomp e he, hw]

/-- two well-formed dictionaries that bind the same paths to the same values have the same items -/
theorem perm_of_lookup_eq (a b : Dict) (ha : AList.WF a) (hb : AList.WF b) (h : ∀ p, a.lookup p = b.lookup p) : a ~ b := by
  have nd : ∀ d : Dict, AList.WF d → d.Nodup := by
    intro d hd
    unfold AList.WF AList.keys at hd
    unfold Nodup at hd ⊢
    exact Pairwise.of_map (fun e : Path × Mtime => e.1) (fun a b hab e => hab (by rw [e])) hd
  apply (perm_ext_iff_of_nodup (nd a ha) (nd b hb)).mpr
  rintro ⟨k, v⟩
  constructor
  · intro hm
    have := AList.lookup_of_mem a ha k v hm
    rw [h k] at this
    exact AList.mem_of_lookup b k v this
  · intro hm
    have := AList.lookup_of_mem b hb k v hm
    rw [← h k] at this
    exact AList.mem_of_lookup a k v this

/-- **C10: the link record matches the resulting workspace.**  Under the hypotheses of `fromChanges_lookup`, what checkout
    tokenises for the record is, item for item, what a walk of the directory tokenises afterwards. -/
theorem record_token_matches (ws : Dict) (hws : AList.WF ws) (updated : List (Path × Mtime)) (unchanged : List (Path × Option Mtime))
    (hu : ∀ e ∈ updated, ws.lookup e.1 = some e.2)
    (hn : ∀ e ∈ unchanged, ∀ t, e.2 = some t → ws.lookup e.1 = some t)
    (hcov : ∀ p t, ws.lookup p = some t → p ∈ updated.map (·.1) ∨ p ∈ unchanged.map (·.1)) :
    canon (fromChanges ws.lookup updated unchanged) = canon ws := by
  have hw := wf_fromChanges ws.lookup updated unchanged
  have hp := perm_of_lookup_eq _ ws hw hws (fromChanges_lookup ws updated unchanged hu hn hcov)
  unfold canon
  exact Tree.sortByFst_perm _ _ hp hw

/-- the hypotheses are met: two files rewritten, one unchanged with recorded metadata, one unchanged without, and one
    listed both as rewritten and as unchanged (the first binding wins) -/
def exWs : Dict := [(['a'], 5), (['b'], 6), (['c'], 7), (['d'], 8)]

example : canon (fromChanges exWs.lookup [(['b'], 6), (['a'], 5)] [(['c'], some 7), (['d'], none), (['a'], some 5)]) = canon exWs :=
  record_token_matches exWs (by decide) _ _ (by decide) (by decide) (by
    intro p t h
    have hm := AList.mem_of_lookup exWs p t h
    simp only [exWs, mem_cons, Prod.mk.injEq, mem_nil_iff, or_false] at hm
    rcases hm with ⟨rfl, _⟩ | ⟨rfl, _⟩ | ⟨rfl, _⟩ | ⟨rfl, _⟩ <;> decide)

end DvcData.LinkRecord
