import DvcData.Model.IndexCheckout
import DvcData.Props.C08
/-!
# C09 — index checkout converges to the target from any workspace state
-/
namespace DvcData.IndexCheckout
open DvcData Path MetaInfo IndexDiff List

/-! ### directories scheduled for deletion really go away (the F4 repair) -/

theorem lookup_erase_ne (w : Ws) (k k2 : Key) (h : k ≠ k2) : (AList.erase w k).lookup k2 = w.lookup k2 := by
  rw [AList.lookup_erase]; simp [h]

theorem lookup_erase_self (w : Ws) (k : Key) : (AList.erase w k).lookup k = none := by
  rw [AList.lookup_erase]; simp

theorem mem_erase_sub (w : Ws) (k : Key) (e : Key × Node) (h : e ∈ AList.erase w k) : e ∈ w :=
  (List.mem_filter.mp h).1

/-- `rmdir` only ever removes the key it is given -/
theorem rmdir_lookup_ne (w : Ws) (k k2 : Key) (h : k ≠ k2) : (rmdir w k).lookup k2 = w.lookup k2 := by
  unfold rmdir; split
  · exact lookup_erase_ne w k k2 h
  · rfl

theorem rmdir_sub (w : Ws) (k : Key) (e : Key × Node) (h : e ∈ rmdir w k) : e ∈ w := by
  unfold rmdir at h; split at h
  · exact mem_erase_sub w k e h
  · exact h

theorem rmdir_none_stays (w : Ws) (k k2 : Key) (h : w.lookup k2 = none) : (rmdir w k).lookup k2 = none := by
  by_cases e : k = k2
  · subst e; unfold rmdir; split
    · exact lookup_erase_self w k
    · exact h
  · rw [rmdir_lookup_ne w k k2 e]; exact h

theorem foldl_rmdir_none_stays (l : List Key) : ∀ (w : Ws) (k2 : Key), w.lookup k2 = none →
    (l.foldl rmdir w).lookup k2 = none := by
  induction l with
  | nil => intro w k2 h; exact h
  | cons a r ih => intro w k2 h; exact ih _ k2 (rmdir_none_stays w a k2 h)

theorem foldl_rmdir_sub (l : List Key) : ∀ (w : Ws) (e : Key × Node), e ∈ l.foldl rmdir w → e ∈ w := by
  induction l with
  | nil => intro w e h; exact h
  | cons a r ih => intro w e h; exact rmdir_sub w a e (ih _ e h)

/-- an empty directory is removed -/
theorem rmdir_removes (w : Ws) (k : Key) (hnc : ∀ e ∈ w, properPrefix k e.1 = false) :
    (rmdir w k).lookup k ≠ some .dir ∨ (rmdir w k).lookup k = none := by
  unfold rmdir
  split
  · right; exact lookup_erase_self w k
  · rename_i hc
    left
    intro hd
    apply hc
    refine ⟨hd, ?_⟩
    simp only [Bool.not_eq_true', List.any_eq_false]
    intro e he; simpa using hnc e he

theorem rmdir_wf (w : Ws) (k : Key) (h : AList.WF w) : AList.WF (rmdir w k) := by
  unfold rmdir; split
  · unfold AList.WF AList.keys AList.erase at *
    exact (List.filter_sublist.map _).nodup h
  · exact h

/-- **deepest-first removal**: if every node below a directory scheduled for deletion is itself a
    scheduled directory (the files below were removed by the previous phase), then after the
    deletion phase none of the scheduled keys is a directory of the workspace any more — for every
    nesting depth. -/
theorem rmdir_all (ds : List Key) (w : Ws) (hwf : AList.WF w)
    (hdesc : ∀ d ∈ ds, ∀ e ∈ w, properPrefix d e.1 = true → e.1 ∈ ds ∧ e.2 = .dir) :
    ∀ d ∈ ds, ((deepestFirst ds).foldl rmdir w).lookup d ≠ some .dir := by
  have key : ∀ (l : List Key) (w' : Ws),
      l.Pairwise (fun a b => b.length ≤ a.length) →
      AList.WF w' → (∀ e ∈ w', e ∈ w) →
      (∀ d ∈ ds, d ∈ l ∨ w'.lookup d ≠ some .dir) →
      ∀ d ∈ ds, (l.foldl rmdir w').lookup d ≠ some .dir := by
    intro l
    induction l with
    | nil =>
      intro w' _ _ _ hdone d hd
      rcases hdone d hd with h | h
      · simp at h
      · exact h
    | cons a r ih =>
      intro w' hp hwf' hsub hdone d hd
      simp only [List.foldl_cons]
      have hp' := (List.pairwise_cons.mp hp)
      apply ih (rmdir w' a) hp'.2 (rmdir_wf w' a hwf') (fun e he => hsub e (rmdir_sub w' a e he)) ?_ d hd
      intro d' hd'
      by_cases hda : d' = a
      · subst hda
        right
        have hnc : ∀ e ∈ w', properPrefix d' e.1 = false := by
          intro e he
          cases hpp : properPrefix d' e.1 with
          | false => rfl
          | true =>
            exfalso
            obtain ⟨hin, hdir⟩ := hdesc d' hd' e (hsub e he) hpp
            have hlen : d'.length < e.1.length := by
              simp only [properPrefix, Bool.and_eq_true, decide_eq_true_eq] at hpp; exact hpp.2
            have hlk : w'.lookup e.1 = some .dir := by
              have := AList.lookup_of_mem w' hwf' e.1 e.2 he
              rw [this, hdir]
            rcases hdone e.1 hin with h | h
            · rcases List.mem_cons.mp h with h' | h'
              · rw [h'] at hlen; exact absurd hlen (Nat.lt_irrefl _)
              · have := hp'.1 e.1 h'; omega
            · exact h hlk
        rcases rmdir_removes w' d' hnc with h | h
        · exact h
        · rw [h]; simp
      · rcases hdone d' hd' with h | h
        · rcases List.mem_cons.mp h with h' | h'
          · exact absurd h' hda
          · exact Or.inl h'
        · right; rw [rmdir_lookup_ne w' a d' (fun e => hda e.symm)]; exact h
  intro d hd
  apply key (deepestFirst ds) w ?_ hwf (fun e he => he) ?_ d hd
  · unfold deepestFirst
    have := List.pairwise_mergeSort (le := fun (a b : Key) => decide (b.length ≤ a.length))
      (fun a b c h1 h2 => by simp only [decide_eq_true_eq] at *; omega)
      (fun a b => by
        by_cases h : b.length ≤ a.length
        · simp [h]
        · have : a.length ≤ b.length := by omega
          simp [this]) ds
    exact this.imp (fun h => by simpa using h)
  · intro d' hd'
    left
    unfold deepestFirst
    exact (List.mergeSort_perm ds _).mem_iff.mpr hd'

/-! ### what `compare` schedules -/

/-- a change as the diff produces it: both sides are the entries at one and the same key -/
def Good (old new : Option Index) (c : Change) : Prop :=
  ∃ k', c.old = (entryOf old k').map (k', ·) ∧ c.new = (entryOf new k').map (k', ·)

structure ActInv (delete : Bool) (old new : Option Index) (a : Actions) : Prop where
  creates : ∀ p, p ∈ a.filesCreate ∨ p ∈ a.dirsCreate ∨ p ∈ a.filesChmod → entryOf new p.1 = some p.2
  deletes : ∀ p, p ∈ a.filesDelete ∨ p ∈ a.dirsDelete → entryOf old p.1 = some p.2
  inTarget : delete = false → ∀ p, p ∈ a.filesDelete ∨ p ∈ a.dirsDelete → (entryOf new p.1).isSome = true

theorem addCreate_inv (delete : Bool) (old new : Option Index) (a : Actions) (p : Key × Entry)
    (h : ActInv delete old new a) (hp : entryOf new p.1 = some p.2) : ActInv delete old new (addCreate a p) := by
  unfold addCreate
  split
  · refine ⟨?_, h.deletes, h.inTarget⟩
    intro q hq
    simp only [List.mem_append, List.mem_singleton] at hq
    rcases hq with hq | (hq | rfl) | hq
    · exact h.creates q (Or.inl hq)
    · exact h.creates q (Or.inr (Or.inl hq))
    · exact hp
    · exact h.creates q (Or.inr (Or.inr hq))
  · refine ⟨?_, h.deletes, h.inTarget⟩
    intro q hq
    simp only [List.mem_append, List.mem_singleton] at hq
    rcases hq with (hq | rfl) | hq | hq
    · exact h.creates q (Or.inl hq)
    · exact hp
    · exact h.creates q (Or.inr (Or.inl hq))
    · split at hq
      · simp only [List.mem_append, List.mem_singleton] at hq
        rcases hq with hq | rfl
        · exact h.creates q (Or.inr (Or.inr hq))
        · exact hp
      · exact h.creates q (Or.inr (Or.inr hq))

theorem addDelete_inv (delete : Bool) (old new : Option Index) (a : Actions) (p : Key × Entry)
    (h : ActInv delete old new a) (hp : entryOf old p.1 = some p.2)
    (ht : delete = false → (entryOf new p.1).isSome = true) : ActInv delete old new (addDelete a p) := by
  unfold addDelete
  split
  · refine ⟨h.creates, ?_, ?_⟩
    · intro q hq
      simp only [List.mem_append, List.mem_singleton] at hq
      rcases hq with hq | hq | rfl
      · exact h.deletes q (Or.inl hq)
      · exact h.deletes q (Or.inr hq)
      · exact hp
    · intro hd q hq
      simp only [List.mem_append, List.mem_singleton] at hq
      rcases hq with hq | hq | rfl
      · exact h.inTarget hd q (Or.inl hq)
      · exact h.inTarget hd q (Or.inr hq)
      · exact ht hd
  · refine ⟨h.creates, ?_, ?_⟩
    · intro q hq
      simp only [List.mem_append, List.mem_singleton] at hq
      rcases hq with (hq | rfl) | hq
      · exact h.deletes q (Or.inl hq)
      · exact hp
      · exact h.deletes q (Or.inr hq)
    · intro hd q hq
      simp only [List.mem_append, List.mem_singleton] at hq
      rcases hq with (hq | rfl) | hq
      · exact h.inTarget hd q (Or.inl hq)
      · exact ht hd
      · exact h.inTarget hd q (Or.inr hq)

theorem good_old (old new : Option Index) (c : Change) (hg : Good old new c) (o : Key × Entry)
    (h : c.old = some o) : entryOf old o.1 = some o.2 := by
  obtain ⟨k', h1, _⟩ := hg
  rw [h1] at h
  cases he : entryOf old k' with
  | none => simp [he] at h
  | some e => simp [he] at h; subst h; exact he

theorem good_new (old new : Option Index) (c : Change) (hg : Good old new c) (n : Key × Entry)
    (h : c.new = some n) : entryOf new n.1 = some n.2 := by
  obtain ⟨k', _, h2⟩ := hg
  rw [h2] at h
  cases he : entryOf new k' with
  | none => simp [he] at h
  | some e => simp [he] at h; subst h; exact he

theorem good_same_key (old new : Option Index) (c : Change) (hg : Good old new c) (o n : Key × Entry)
    (ho : c.old = some o) (hn : c.new = some n) : o.1 = n.1 := by
  obtain ⟨k', h1, h2⟩ := hg
  rw [h1] at ho; rw [h2] at hn
  cases he : entryOf old k' with
  | none => simp [he] at ho
  | some e =>
    cases hf : entryOf new k' with
    | none => simp [hf] at hn
    | some f => simp [he] at ho; simp [hf] at hn; subst ho; subst hn; rfl

theorem step_add (delete : Bool) (old new : Option Index) (a : Actions) (c : Change) (n : Key × Entry)
    (hg : Good old new c) (h : ActInv delete old new a) (hn : c.new = some n) :
    ActInv delete old new (addCreate a n) :=
  addCreate_inv delete old new a n h (good_new old new c hg n hn)

theorem step_delete (delete : Bool) (old new : Option Index) (a : Actions) (c : Change) (o : Key × Entry)
    (hg : Good old new c) (h : ActInv delete old new a) (ho : c.old = some o) :
    ActInv delete old new (if !delete then a else if isDirE o.2 && newHasNode new o.1 then a else addDelete a o) := by
  split
  · exact h
  · rename_i hd
    split
    · exact h
    · exact addDelete_inv delete old new a o h (good_old old new c hg o ho) (fun hf => by simp [hf] at hd)

theorem step_modify (delete : Bool) (old new : Option Index) (a : Actions) (c : Change) (o n : Key × Entry)
    (hg : Good old new c) (h : ActInv delete old new a) (ho : c.old = some o) (hn : c.new = some n) :
    ActInv delete old new
      (if o.2.hashInfo ≠ n.2.hashInfo ∨ isDirE o.2 ≠ isDirE n.2 then
        if isDirE o.2 && isDirE n.2 then a else addCreate (addDelete a o) n
      else if isExecE o.2 ≠ isExecE n.2 ∧ !isDirE n.2 then { a with filesChmod := a.filesChmod ++ [n] }
      else a) := by
  split
  · split
    · exact h
    · apply addCreate_inv _ _ _ _ _ _ (good_new old new c hg n hn)
      apply addDelete_inv _ _ _ _ _ h (good_old old new c hg o ho)
      intro _
      rw [good_same_key old new c hg o n ho hn, good_new old new c hg n hn]; rfl
  · split
    · refine ⟨?_, h.deletes, h.inTarget⟩
      intro q hq
      simp only [List.mem_append, List.mem_singleton] at hq
      rcases hq with hq | hq | hq | rfl
      · exact h.creates q (Or.inl hq)
      · exact h.creates q (Or.inr (Or.inl hq))
      · exact h.creates q (Or.inr (Or.inr hq))
      · exact good_new old new c hg _ hn
    · exact h

theorem stepChange_inv (delete : Bool) (old new : Option Index) (a : Actions) (c : Change)
    (hg : Good old new c) (h : ActInv delete old new a) : ActInv delete old new (stepChange delete new a c) := by
  unfold stepChange
  cases ht : c.typ <;> cases ho : c.old <;> cases hn : c.new <;> simp only [] <;>
    first
    | exact h
    | exact step_add delete old new a c _ hg h hn
    | exact step_delete delete old new a c _ hg h ho
    | exact step_modify delete old new a c _ _ hg h ho hn

theorem foldl_stepChange_inv (delete : Bool) (old new : Option Index) : ∀ (cs : List Change) (a : Actions),
    (∀ c ∈ cs, Good old new c) → ActInv delete old new a →
    ActInv delete old new (cs.foldl (stepChange delete new) a) := by
  intro cs
  induction cs with
  | nil => intro a _ h; exact h
  | cons c r ih =>
    intro a hg h
    exact ih _ (fun x hx => hg x (List.mem_cons_of_mem _ hx)) (stepChange_inv delete old new a c (hg c (by simp)) h)

/-- **what `compare` schedules**: everything to create/chmod is an entry of the target, everything
    to delete is an entry of the old index, and **without deletion enabled only paths that the
    target itself holds are ever removed** (to be replaced by the target's entry). -/
theorem compare_inv (delete : Bool) (old new : Option Index) :
    ActInv delete old new (compare delete old new) := by
  unfold compare IndexDiff.diff
  simp only [Bool.false_and, Bool.false_eq_true, if_false]
  apply foldl_stepChange_inv
  · intro c hc
    obtain ⟨k', _, h2, h3, _⟩ := diffAt_sound _ old new _ _ c hc
    exact ⟨k', h2, h3⟩
  · exact ⟨by intro p hp; simp at hp,
           by intro p hp; simp at hp, by intro _ p hp; simp at hp⟩

theorem no_delete_outside_target (old new : Option Index) (p : Key × Entry)
    (h : p ∈ (compare false old new).filesDelete ∨ p ∈ (compare false old new).dirsDelete) :
    (entryOf new p.1).isSome = true :=
  (compare_inv false old new).inTarget rfl p h


/-! ### completeness of `compare`: whatever has to change is scheduled -/

theorem addCreate_mono (a : Actions) (p : Key × Entry) :
    (∀ q ∈ a.filesDelete, q ∈ (addCreate a p).filesDelete) ∧ (∀ q ∈ a.dirsDelete, q ∈ (addCreate a p).dirsDelete) ∧
    (∀ q ∈ a.filesCreate, q ∈ (addCreate a p).filesCreate) ∧ (∀ q ∈ a.dirsCreate, q ∈ (addCreate a p).dirsCreate) ∧
    (∀ q ∈ a.filesChmod, q ∈ (addCreate a p).filesChmod) := by
  unfold addCreate
  split
  · exact ⟨fun _ h => h, fun _ h => h, fun _ h => h, fun _ h => List.mem_append_left _ h, fun _ h => h⟩
  · refine ⟨fun _ h => h, fun _ h => h, fun _ h => List.mem_append_left _ h, fun _ h => h, ?_⟩
    intro q h
    simp only
    split
    · exact List.mem_append_left _ h
    · exact h

theorem addDelete_mono (a : Actions) (p : Key × Entry) :
    (∀ q ∈ a.filesDelete, q ∈ (addDelete a p).filesDelete) ∧ (∀ q ∈ a.dirsDelete, q ∈ (addDelete a p).dirsDelete) ∧
    (∀ q ∈ a.filesCreate, q ∈ (addDelete a p).filesCreate) ∧ (∀ q ∈ a.dirsCreate, q ∈ (addDelete a p).dirsCreate) ∧
    (∀ q ∈ a.filesChmod, q ∈ (addDelete a p).filesChmod) := by
  unfold addDelete
  split
  · exact ⟨fun _ h => h, fun _ h => List.mem_append_left _ h, fun _ h => h, fun _ h => h, fun _ h => h⟩
  · exact ⟨fun _ h => List.mem_append_left _ h, fun _ h => h, fun _ h => h, fun _ h => h, fun _ h => h⟩

/-- the action lists only grow -/
def ActLe (a b : Actions) : Prop :=
  (∀ q ∈ a.filesDelete, q ∈ b.filesDelete) ∧ (∀ q ∈ a.dirsDelete, q ∈ b.dirsDelete) ∧
  (∀ q ∈ a.filesCreate, q ∈ b.filesCreate) ∧ (∀ q ∈ a.dirsCreate, q ∈ b.dirsCreate) ∧
  (∀ q ∈ a.filesChmod, q ∈ b.filesChmod)

theorem ActLe.refl (a : Actions) : ActLe a a := ⟨fun _ h => h, fun _ h => h, fun _ h => h, fun _ h => h, fun _ h => h⟩
theorem ActLe.trans {a b c : Actions} (h1 : ActLe a b) (h2 : ActLe b c) : ActLe a c :=
  ⟨fun q h => h2.1 q (h1.1 q h), fun q h => h2.2.1 q (h1.2.1 q h), fun q h => h2.2.2.1 q (h1.2.2.1 q h),
   fun q h => h2.2.2.2.1 q (h1.2.2.2.1 q h), fun q h => h2.2.2.2.2 q (h1.2.2.2.2 q h)⟩

theorem stepChange_mono (delete : Bool) (new : Option Index) (a : Actions) (c : Change) :
    ActLe a (stepChange delete new a c) := by
  unfold stepChange
  cases ht : c.typ <;> cases ho : c.old <;> cases hn : c.new <;> simp only [] <;>
    first
    | exact ActLe.refl a
    | exact addCreate_mono a _
    | (split
       · exact ActLe.refl a
       · split
         · exact ActLe.refl a
         · exact addDelete_mono a _)
    | (split
       · split
         · exact ActLe.refl a
         · exact ActLe.trans (addDelete_mono a _) (addCreate_mono _ _)
       · split
         · exact ⟨fun _ h => h, fun _ h => h, fun _ h => h, fun _ h => h, fun _ h => List.mem_append_left _ h⟩
         · exact ActLe.refl a)

theorem foldl_stepChange_mono (delete : Bool) (new : Option Index) : ∀ (cs : List Change) (a : Actions),
    ActLe a (cs.foldl (stepChange delete new) a) := by
  intro cs
  induction cs with
  | nil => intro a; exact ActLe.refl a
  | cons c r ih => intro a; exact ActLe.trans (stepChange_mono delete new a c) (ih _)

/-- what one change contributes, whatever was scheduled before, is in the final lists -/
theorem foldl_stepChange_mem (delete : Bool) (new : Option Index) (sel : Actions → List (Key × Entry))
    (hsel : ∀ a b, ActLe a b → ∀ q ∈ sel a, q ∈ sel b) (p : Key × Entry) (c : Change)
    (hc : ∀ a, p ∈ sel (stepChange delete new a c)) : ∀ (cs : List Change) (a : Actions), c ∈ cs →
    p ∈ sel (cs.foldl (stepChange delete new) a) := by
  intro cs
  induction cs with
  | nil => intro a h; simp at h
  | cons x r ih =>
    intro a h
    simp only [List.foldl_cons]
    rcases List.mem_cons.mp h with rfl | h
    · exact hsel _ _ (foldl_stepChange_mono delete new r _) p (hc a)
    · exact ih _ h

theorem maxDepth_ge (idx : Index) (k : Key) (e : Entry) (h : idx.lookup k = some e) : k.length ≤ maxDepth (some idx) := by
  have hm := AList.mem_of_lookup idx k e h
  unfold maxDepth
  simp only
  have : ∀ (l : Index) (m : Nat), (∀ x ∈ l, x.1.length ≤ l.foldl (fun m e => max m e.1.length) m) ∧
      m ≤ l.foldl (fun m e => max m e.1.length) m := by
    intro l
    induction l with
    | nil => intro m; simp
    | cons a r ih =>
      intro m
      simp only [List.foldl_cons]
      obtain ⟨h1, h2⟩ := ih (max m a.1.length)
      refine ⟨?_, by omega⟩
      intro x hx
      rcases List.mem_cons.mp hx with rfl | hx
      · omega
      · exact h1 x hx
  exact (this idx 0).1 (k, e) hm

theorem hasBelow_of_entryOf (idx : Option Index) (k : Key) (e : Entry) (h : entryOf idx k = some e) : HasBelow idx k := by
  cases idx with
  | none => simp [entryOf, optInfo] at h
  | some i =>
    simp only [HasBelow]
    exact (entryOf_some i k).mp (by simp [h])

theorem fuel_enough (old new : Option Index) (k : Key) (h : HasBelow old k ∨ HasBelow new k) :
    k.length < max (maxDepth old) (maxDepth new) + 2 := by
  rcases h with h | h
  · cases old with
    | none => simp [HasBelow] at h
    | some i =>
      simp only [HasBelow] at h
      cases hl : i.lookup k with
      | none => simp [hl] at h
      | some e => have := maxDepth_ge i k e hl; omega
  · cases new with
    | none => simp [HasBelow] at h
    | some i =>
      simp only [HasBelow] at h
      cases hl : i.lookup k with
      | none => simp [hl] at h
      | some e => have := maxDepth_ge i k e hl; omega

/-- the change the diff reports for key `k` is one of the changes `compare` folds over -/
theorem change_in_diff (old new : Option Index) (hwo : WFOpt old) (hwn : WFOpt new) (k : Key)
    (hb : HasBelow old k ∨ HasBelow new k) (c : Change) (hc : c ∈ hereOf { cmp := .dirExec } old new k) :
    c ∈ IndexDiff.diff { cmp := .dirExec } old new := by
  unfold IndexDiff.diff
  simp only [Bool.false_and, Bool.false_eq_true, if_false]
  have := diffAt_complete { cmp := .dirExec } rfl (Or.inl rfl) old new hwo hwn k [] _ (fuel_enough old new k hb)
    (by simpa using hb) c (by simpa using hc)
  exact this

/-- **everything the target needs is scheduled for creation**: a target file whose key is new, or whose
    content or kind differs from what is there, is in `files_create` — for all well-formed indexes -/
theorem compare_schedules_create (delete : Bool) (old new : Option Index) (hwo : WFOpt old) (hwn : WFOpt new)
    (k : Key) (n : Entry) (hn : entryOf new k = some n) (hfile : isDirE n = false)
    (hneed : diffEntry { cmp := .dirExec } (entryOf old k) (some n) = .add ∨
      (diffEntry { cmp := .dirExec } (entryOf old k) (some n) = .modify ∧
        ∃ o, entryOf old k = some o ∧ (o.hashInfo ≠ n.hashInfo ∨ isDirE o ≠ isDirE n))) :
    (k, n) ∈ (compare delete old new).filesCreate := by
  unfold compare
  have hb : HasBelow old k ∨ HasBelow new k := Or.inr (hasBelow_of_entryOf new k n hn)
  let c : Change := { typ := diffEntry { cmp := .dirExec } (entryOf old k) (entryOf new k),
                      old := (entryOf old k).map (k, ·), new := (entryOf new k).map (k, ·) }
  have hc : c ∈ hereOf { cmp := .dirExec } old new k := by
    unfold hereOf
    simp only [hn, Option.isNone_some, Bool.and_false, Bool.false_eq_true, if_false]
    have : diffEntry { cmp := .dirExec } (entryOf old k) (some n) ≠ .unchanged := by
      rcases hneed with h | ⟨h, _⟩ <;> rw [h] <;> simp
    simp [this, c, hn]
  apply foldl_stepChange_mem delete new (·.filesCreate) (fun a b h q hq => h.2.2.1 q hq) (k, n) c ?_ _ _
    (change_in_diff old new hwo hwn k hb c hc)
  intro a
  unfold stepChange
  simp only [c, hn, Option.map_some]
  rcases hneed with h | ⟨h, o, ho, hdiff⟩
  · rw [h]
    simp only [addCreate, hfile, Bool.false_eq_true, if_false]
    cases (entryOf old k).map (k, ·) <;> simp
  · rw [h, ho]
    simp only [Option.map_some]
    have hcond : ¬o.hashInfo = n.hashInfo ∨ isDirE o = true := by
      rcases hdiff with h1 | h1
      · exact Or.inl h1
      · right; rw [hfile] at h1; cases hd : isDirE o <;> simp_all
    simp only [hfile, Bool.and_false, Bool.false_eq_true, if_false, addCreate]
    simp [hcond]

/-- **everything that has to go is scheduled for deletion** (deletion enabled): an old entry whose key the
    target does not hold is in `files_delete` / `dirs_delete` — except a directory that is still an implicit
    directory of the target -/
theorem compare_schedules_delete (old new : Option Index) (hwo : WFOpt old) (hwn : WFOpt new)
    (k : Key) (o : Entry) (ho : entryOf old k = some o) (hnone : entryOf new k = none)
    (hkeep : (isDirE o && newHasNode new k) = false) :
    if isDirE o then (k, o) ∈ (compare true old new).dirsDelete else (k, o) ∈ (compare true old new).filesDelete := by
  have hb : HasBelow old k ∨ HasBelow new k := Or.inl (hasBelow_of_entryOf old k o ho)
  have htyp : diffEntry { cmp := .dirExec } (some o) none = .delete := by
    simp [diffEntry, decide3, entryDiffOf]
  let c : Change := { typ := .delete, old := some (k, o), new := none }
  have hc : c ∈ hereOf { cmp := .dirExec } old new k := by
    unfold hereOf
    simp [ho, hnone, htyp, c]
  have hcd := change_in_diff old new hwo hwn k hb c hc
  unfold compare
  by_cases hd : isDirE o = true
  · simp only [hd, if_true]
    apply foldl_stepChange_mem true new (·.dirsDelete) (fun a b h q hq => h.2.1 q hq) (k, o) c ?_ _ _ hcd
    intro a
    have hnn : newHasNode new k = false := by simpa [hd] using hkeep
    simp only [stepChange, c, Bool.not_true, Bool.false_eq_true, if_false, hd, Bool.true_and, hnn, addDelete, if_true]
    simp
  · have hd' : isDirE o = false := by simpa using hd
    simp only [hd', Bool.false_eq_true, if_false]
    apply foldl_stepChange_mem true new (·.filesDelete) (fun a b h q hq => h.1 q hq) (k, o) c ?_ _ _ hcd
    intro a
    simp only [stepChange, c, Bool.not_true, Bool.false_eq_true, if_false, hd', Bool.false_and, addDelete]
    simp

end DvcData.IndexCheckout
