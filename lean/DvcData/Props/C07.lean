import DvcData.Model.Store
import DvcData.Props.C13
/-!
# C07 — corrupted objects are detected and dropped, never served; intact ones unharmed
-/
namespace DvcData.Store
open DvcData State AList

theorem fsOf_lookup (st : Store) (oid : Oid) :
    (fsOf st).lookup oid = (st.lookup oid).map fun o => { bytes := o.data, stamp := o.stamp } := by
  induction st with
  | nil => rfl
  | cons p r ih =>
    obtain ⟨k, o⟩ := p
    simp only [fsOf, List.map_cons, lookup_cons] at ih ⊢
    by_cases h : k = oid <;> simp [h, ih]

theorem fsOf_erase (st : Store) (oid : Oid) : fsOf (st.erase oid) = State.delete (fsOf st) oid := by
  simp only [fsOf, AList.erase, State.delete, List.filter_map]
  congr 1

theorem fsOf_set (st : Store) (oid : Oid) (o : Obj) :
    fsOf (st.set oid o) = (fsOf st).set oid { bytes := o.data, stamp := o.stamp } := by
  induction st with
  | nil => rfl
  | cons p r ih =>
    obtain ⟨k, o'⟩ := p
    simp only [fsOf, AList.set, List.map_cons] at ih ⊢
    by_cases h : k = oid
    · simp [h]
    · simp [h]; exact ih

/-- hashing an object through the cache gives the hash of its bytes (C13) -/
theorem hashFile_obj (H : Algo → Bytes → Digest) (db : Db) (st : Store) (used : Used)
    (hc : Coherent H db (fsOf st) used) (oid : Oid) (o : Obj) (ho : st.lookup oid = some o) (name : Algo) :
    ∃ db', hashFile H db (fsOf st) true oid name = some (H name o.data, db') ∧ Coherent H db' (fsOf st) used := by
  have hl : (fsOf st).lookup oid = some { bytes := o.data, stamp := o.stamp } := by rw [fsOf_lookup, ho]; rfl
  cases hh : hashFile H db (fsOf st) true oid name with
  | none => simp [hashFile, hl] at hh; split at hh <;> (try split at hh) <;> simp at hh
  | some r =>
    obtain ⟨v, db'⟩ := r
    obtain ⟨⟨n, hn, hv⟩, hc'⟩ := hashFile_correct H db (fsOf st) used hc true oid name v db' hh
    rw [hl] at hn; cases hn
    exact ⟨db', by rw [hv], hc'⟩

/-- **a mismatching, unprotected object is rejected and deleted** — whatever the cache holds, as
    long as it is coherent (an entry from before the tampering carries the old stamp and cannot hit) -/
theorem check_rejects_corrupt (H : Algo → Bytes → Digest) (localClass : Bool) (name : Algo) (db : Db)
    (st : Store) (used : Used) (hc : Coherent H db (fsOf st) used) (oid : Oid) (o : Obj)
    (ho : st.lookup oid = some o) (hp : (localClass && o.prot) = false)
    (hbad : strip (H name o.data) ≠ strip oid) :
    (check H localClass name db st oid).1 = .corrupt ∧ (check H localClass name db st oid).2.1 = st.erase oid := by
  obtain ⟨db', hh, _⟩ := hashFile_obj H db st used hc oid o ho name
  simp [check, ho, hp, hh, hbad]

/-- **an intact object is accepted, never deleted, and a local object is read-only afterwards** -/
theorem check_accepts_intact (H : Algo → Bytes → Digest) (localClass : Bool) (name : Algo) (db : Db)
    (st : Store) (used : Used) (hc : Coherent H db (fsOf st) used) (oid : Oid) (o : Obj)
    (ho : st.lookup oid = some o) (hgood : strip (H name o.data) = strip oid) :
    (check H localClass name db st oid).1 = .ok ∧
    (check H localClass name db st oid).2.1.lookup oid = some { o with prot := o.prot || localClass } := by
  by_cases hp : (localClass && o.prot) = true
  · simp only [Bool.and_eq_true] at hp
    simp [check, ho, hp.1, hp.2]
    cases o; simp_all
  · have hp' : (localClass && o.prot) = false := by simpa using hp
    obtain ⟨db', hh, _⟩ := hashFile_obj H db st used hc oid o ho name
    simp only [check, ho, hp', Bool.false_eq_true, if_false, hh, hgood, ne_eq, not_true_eq_false]
    refine ⟨trivial, ?_⟩
    cases localClass with
    | false => simp [ho]
    | true => simp [AList.lookup_set]

/-- a check never touches another object -/
theorem check_other (H : Algo → Bytes → Digest) (localClass : Bool) (name : Algo) (db : Db) (st : Store)
    (oid other : Oid) (hne : oid ≠ other) :
    (check H localClass name db st oid).2.1.lookup other = st.lookup other := by
  unfold check
  split
  · rfl
  · split
    · rfl
    · split
      · rfl
      · split
        · simp [AList.lookup_erase, hne]
        · split
          · simp [AList.lookup_set, hne]
          · rfl

/-- **after a check, an object that is still there and is not a (trusted) protected local object
    matches its name** -/
theorem check_leaves_valid (H : Algo → Bytes → Digest) (localClass : Bool) (name : Algo) (db : Db)
    (st : Store) (used : Used) (hc : Coherent H db (fsOf st) used) (oid : Oid) (o o' : Obj)
    (ho : st.lookup oid = some o) (hp : (localClass && o.prot) = false)
    (h' : (check H localClass name db st oid).2.1.lookup oid = some o') :
    strip (H name o'.data) = strip oid := by
  by_cases hgood : strip (H name o.data) = strip oid
  · have := (check_accepts_intact H localClass name db st used hc oid o ho hgood).2
    rw [this] at h'; cases h'; exact hgood
  · have := (check_rejects_corrupt H localClass name db st used hc oid o ho hp hgood).2
    rw [this, AList.lookup_erase] at h'; simp at h'

/-! ### adds that fail leave what is there alone -/

theorem foldl_addOne_untouched (localClass : Bool) (name : Algo) (oid : Oid) :
    ∀ (xs : List (Oid × Option (Bytes × Stamp))) (acc : List Oid × Store × Db),
      (∀ x ∈ xs, x.1 = oid → x.2 = none) →
      (xs.foldl (addOne localClass name) acc).2.1.lookup oid = acc.2.1.lookup oid ∧
      (xs.foldl (addOne localClass name) acc).2.2.lookup oid = acc.2.2.lookup oid := by
  intro xs
  induction xs with
  | nil => intro acc _; exact ⟨rfl, rfl⟩
  | cons x r ih =>
    intro acc h
    obtain ⟨failed, st, db⟩ := acc
    simp only [List.foldl_cons]
    have hr := ih (addOne localClass name (failed, st, db) x) (fun y hy => h y (List.mem_cons_of_mem _ hy))
    have hx : (addOne localClass name (failed, st, db) x).2.1.lookup oid = st.lookup oid ∧
        (addOne localClass name (failed, st, db) x).2.2.lookup oid = db.lookup oid := by
      unfold addOne
      simp only
      cases hsrc : x.2 with
      | none => exact ⟨rfl, rfl⟩
      | some ds =>
        have hne : x.1 ≠ oid := by
          intro e
          have := h x (by simp) e
          rw [hsrc] at this; cases this
        obtain ⟨data, s⟩ := ds
        simp only
        refine ⟨by rw [AList.lookup_set]; simp [hne], ?_⟩
        unfold State.save
        cases (fsOf (AList.set st x.1 { data := data, prot := localClass, stamp := s })).lookup x.1 with
        | none => rfl
        | some n => simp only; rw [AList.lookup_set]; simp [hne]
    exact ⟨hr.1.trans hx.1, hr.2.trans hx.2⟩

/-- **a failed add changes nothing about its object**: in any batch, an object all of whose copies fail keeps exactly
    the file and the hash-state row it had - the add neither protects it nor vouches for it (what the unrepaired
    code did for every oid of the batch, F21) -/
theorem failed_add_untouched (localClass : Bool) (name : Algo) (db : Db) (st : Store)
    (xs : List (Oid × Option (Bytes × Stamp))) (oid : Oid) (h : ∀ x ∈ xs, x.1 = oid → x.2 = none) :
    (addBatch localClass name db st xs).2.1.lookup oid = st.lookup oid ∧
    (addBatch localClass name db st xs).2.2.lookup oid = db.lookup oid :=
  foldl_addOne_untouched localClass name oid xs ([], st, db) h

example : (addBatch true "md5" [] [("x", { data := [1], prot := false, stamp := ⟨1, 1, 1⟩ })]
    [("x", none), ("y", some ([2], ⟨2, 2, 1⟩))]).1 = ["x"] := by decide

/-- the verdict of an integrity check depends only on the object's own file and hash-state row -/
theorem check_verdict_congr (H : Algo → Bytes → Digest) (localClass : Bool) (name : Algo) (db db' : Db) (st st' : Store)
    (oid : Oid) (hs : st'.lookup oid = st.lookup oid) (hd : db'.lookup oid = db.lookup oid) :
    (check H localClass name db' st' oid).1 = (check H localClass name db st oid).1 := by
  have hf : (fsOf st').lookup oid = (fsOf st).lookup oid := by rw [fsOf_lookup, fsOf_lookup, hs]
  have hg : State.get db' (fsOf st') true oid = State.get db (fsOf st) true oid := by
    unfold State.get; rw [hd, hf]
  unfold check
  rw [hs]
  cases ho : st.lookup oid with
  | none => rfl
  | some o =>
    simp only
    split
    · rfl
    · have hv : (hashFile H db' (fsOf st') true oid name).map (·.1) = (hashFile H db (fsOf st) true oid name).map (·.1) := by
        unfold hashFile
        rw [hf, hg]
        cases (fsOf st).lookup oid with
        | none => rfl
        | some n =>
          simp only
          cases State.get db (fsOf st) true oid with
          | none => rfl
          | some av =>
            obtain ⟨a, v⟩ := av
            simp only
            split <;> rfl
      cases h1 : hashFile H db' (fsOf st') true oid name with
      | none =>
        rw [h1] at hv
        cases h2 : hashFile H db (fsOf st) true oid name with
        | none => rfl
        | some r => rw [h2] at hv; cases hv
      | some r' =>
        rw [h1] at hv
        cases h2 : hashFile H db (fsOf st) true oid name with
        | none => rw [h2] at hv; cases hv
        | some r =>
          rw [h2] at hv
          obtain ⟨v', d'⟩ := r'
          obtain ⟨v, d⟩ := r
          simp only [Option.map_some, Option.some.injEq] at hv
          subst hv
          simp only
          split <;> rfl

/-- **C07 (failed adds).** Whatever else a batch adds, an object all of whose copies failed gets the same verdict from the
    integrity check afterwards as before: a tampered, unprotected object is not turned into a valid one by a failing add. -/
theorem failed_add_same_verdict (H : Algo → Bytes → Digest) (localClass : Bool) (name : Algo) (db : Db) (st : Store)
    (xs : List (Oid × Option (Bytes × Stamp))) (oid : Oid) (h : ∀ x ∈ xs, x.1 = oid → x.2 = none) :
    (check H localClass name (addBatch localClass name db st xs).2.2 (addBatch localClass name db st xs).2.1 oid).1 =
      (check H localClass name db st oid).1 := by
  obtain ⟨h1, h2⟩ := failed_add_untouched localClass name db st xs oid h
  exact check_verdict_congr H localClass name db _ st _ oid h1 h2

/-! non-vacuity -/
example : strip "abc.dir" = "abc" ∧ strip "abc" = "abc" := by decide

end DvcData.Store
