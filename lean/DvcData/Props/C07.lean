import DvcData.Model.Store
import DvcData.Props.C13
/-!
# C07 — corrupted objects are detected and dropped, never served; intact ones unharmed
-/
namespace DvcData.Store
open DvcData State AList

theorem fsOf_lookup (st : Store) (oid : Oid) :
    (fsOf st).lookup oid = (st.lookup oid).map fun o => { bytes := o.data, stamp := o.stamp } := by
  induction st with
  | nil => rfl
  | cons p r ih =>
    obtain ⟨k, o⟩ := p
    simp only [fsOf, List.map_cons, lookup_cons] at ih ⊢
    by_cases h : k = oid <;> simp [h, ih]

theorem fsOf_erase (st : Store) (oid : Oid) : fsOf (st.erase oid) = State.delete (fsOf st) oid := by
  simp only [fsOf, AList.erase, State.delete, List.filter_map]
  congr 1

theorem fsOf_set (st : Store) (oid : Oid) (o : Obj) :
    fsOf (st.set oid o) = (fsOf st).set oid { bytes := o.data, stamp := o.stamp } := by
  induction st with
  | nil => rfl
  | cons p r ih =>
    obtain ⟨k, o'⟩ := p
    simp only [fsOf, AList.set, List.map_cons] at ih ⊢
    by_cases h : k = oid
    · simp [h]
    · simp [h]; exact ih

/-- hashing an object through the cache gives the hash of its bytes (C13) -/
theorem hashFile_obj (H : Algo → Bytes → Digest) (db : Db) (st : Store) (used : Used)
    (hc : Coherent H db (fsOf st) used) (oid : Oid) (o : Obj) (ho : st.lookup oid = some o) (name : Algo) :
    ∃ db', hashFile H db (fsOf st) true oid name = some (H name o.data, db') ∧ Coherent H db' (fsOf st) used := by
  have hl : (fsOf st).lookup oid = some { bytes := o.data, stamp := o.stamp } := by rw [fsOf_lookup, ho]; rfl
  cases hh : hashFile H db (fsOf st) true oid name with
  | none => simp [hashFile, hl] at hh; split at hh <;> (try split at hh) <;> simp at hh
  | some r =>
    obtain ⟨v, db'⟩ := r
    obtain ⟨⟨n, hn, hv⟩, hc'⟩ := hashFile_correct H db (fsOf st) used hc true oid name v db' hh
    rw [hl] at hn; cases hn
    exact ⟨db', by rw [hv], hc'⟩

/-- **a mismatching, unprotected object is rejected and deleted** — whatever the cache holds, as
    long as it is coherent (an entry from before the tampering carries the old stamp and cannot hit) -/
theorem check_rejects_corrupt (H : Algo → Bytes → Digest) (localClass : Bool) (name : Algo) (db : Db)
    (st : Store) (used : Used) (hc : Coherent H db (fsOf st) used) (oid : Oid) (o : Obj)
    (ho : st.lookup oid = some o) (hp : (localClass && o.prot) = false)
    (hbad : strip (H name o.data) ≠ strip oid) :
    (check H localClass name db st oid).1 = .corrupt ∧ (check H localClass name db st oid).2.1 = st.erase oid := by
  obtain ⟨db', hh, _⟩ := hashFile_obj H db st used hc oid o ho name
  simp [check, ho, hp, hh, hbad]

/-- **an intact object is accepted, never deleted, and a local object is read-only afterwards** -/
theorem check_accepts_intact (H : Algo → Bytes → Digest) (localClass : Bool) (name : Algo) (db : Db)
    (st : Store) (used : Used) (hc : Coherent H db (fsOf st) used) (oid : Oid) (o : Obj)
    (ho : st.lookup oid = some o) (hgood : strip (H name o.data) = strip oid) :
    (check H localClass name db st oid).1 = .ok ∧
    (check H localClass name db st oid).2.1.lookup oid = some { o with prot := o.prot || localClass } := by
  by_cases hp : (localClass && o.prot) = true
  · simp only [Bool.and_eq_true] at hp
    simp [check, ho, hp.1, hp.2]
    cases o; simp_all
  · have hp' : (localClass && o.prot) = false := by simpa using hp
    obtain ⟨db', hh, _⟩ := hashFile_obj H db st used hc oid o ho name
    simp only [check, ho, hp', Bool.false_eq_true, if_false, hh, hgood, ne_eq, not_true_eq_false]
    refine ⟨trivial, ?_⟩
    cases localClass with
    | false => simp [ho]
    | true => simp [AList.lookup_set]

/-- a check never touches another object -/
theorem check_other (H : Algo → Bytes → Digest) (localClass : Bool) (name : Algo) (db : Db) (st : Store)
    (oid other : Oid) (hne : oid ≠ other) :
    (check H localClass name db st oid).2.1.lookup other = st.lookup other := by
  unfold check
  split
  · rfl
  · split
    · rfl
    · split
      · rfl
      · split
        · simp [AList.lookup_erase, hne]
        · split
          · simp [AList.lookup_set, hne]
          · rfl

/-- **after a check, an object that is still there and is not a (trusted) protected local object
    matches its name** -/
theorem check_leaves_valid (H : Algo → Bytes → Digest) (localClass : Bool) (name : Algo) (db : Db)
    (st : Store) (used : Used) (hc : Coherent H db (fsOf st) used) (oid : Oid) (o o' : Obj)
    (ho : st.lookup oid = some o) (hp : (localClass && o.prot) = false)
    (h' : (check H localClass name db st oid).2.1.lookup oid = some o') :
    strip (H name o'.data) = strip oid := by
  by_cases hgood : strip (H name o.data) = strip oid
  · have := (check_accepts_intact H localClass name db st used hc oid o ho hgood).2
    rw [this] at h'; cases h'; exact hgood
  · have := (check_rejects_corrupt H localClass name db st used hc oid o ho hp hgood).2
    rw [this, AList.lookup_erase] at h'; simp at h'

/-! non-vacuity -/
example : strip "abc.dir" = "abc" ∧ strip "abc" = "abc" := by decide

end DvcData.Store
