import DvcData.Model.PushFetch
import DvcData.Proofs.Sets
import DvcData.Props.C08
/-!
# C18 — push and fetch through storage mappings move exactly the reachable objects
-/
namespace DvcData.PushFetch
open DvcData Path IndexLazy List

theorem mem_matching (m : SMap) (k : Key) (e : Key × SInfo) :
    e ∈ matching m k ↔ (e ∈ m ∧ e.1.isPrefixOf k = true) := by
  unfold matching
  rw [(mergeSort_perm _ _).mem_iff]
  simp [List.mem_filter]

theorem matching_sorted (m : SMap) (k : Key) :
    (matching m k).Pairwise fun a b => b.1.length ≤ a.1.length := by
  unfold matching
  have := List.pairwise_mergeSort (le := fun (a b : Key × SInfo) => decide (b.1.length ≤ a.1.length))
    (fun a b c h1 h2 => by simp only [decide_eq_true_eq] at *; omega)
    (fun a b => by
      by_cases h : b.1.length ≤ a.1.length
      · simp [h]
      · have : a.1.length ≤ b.1.length := by omega
        simp [this]) (m.filter fun e => e.1.isPrefixOf k)
  exact this.imp (fun h => by simpa using h)

theorem head?_filterMap_sorted {α β : Type} (f : α → Option β) (len : α → Nat) :
    ∀ (l : List α) (s : β), (l.filterMap f).head? = some s → l.Pairwise (fun a b => len b ≤ len a) →
    ∃ a ∈ l, f a = some s ∧ ∀ b ∈ l, (f b).isSome = true → len b ≤ len a := by
  intro l
  induction l with
  | nil => intro s h; simp at h
  | cons a r ih =>
    intro s h hp
    obtain ⟨hp1, hp2⟩ := List.pairwise_cons.mp hp
    cases hf : f a with
    | some v =>
      simp [List.filterMap_cons, hf] at h
      subst h
      refine ⟨a, by simp, hf, ?_⟩
      intro b hb _
      rcases List.mem_cons.mp hb with rfl | hb'
      · exact Nat.le_refl _
      · exact hp1 b hb'
    | none =>
      simp [List.filterMap_cons, hf] at h
      obtain ⟨x, hx, hfx, hmax⟩ := ih s (by simpa using h) hp2
      refine ⟨x, List.mem_cons_of_mem _ hx, hfx, ?_⟩
      intro b hb hsome
      rcases List.mem_cons.mp hb with rfl | hb'
      · simp [hf] at hsome
      · exact hmax b hb' hsome

/-- **resolution is by longest prefix, independently per role**: the storage returned for a role is
    the one of a mapping prefix of the key that defines that role, and no longer matching prefix
    defines the role -/
theorem resolve_longest_prefix_per_role (m : SMap) (k : Key) (r : Role) (s : StoreId)
    (h : resolveRole m k r = some s) :
    ∃ p info, (p, info) ∈ m ∧ p.isPrefixOf k = true ∧ info.get r = some s ∧
      ∀ q qi, (q, qi) ∈ m → q.isPrefixOf k = true → (qi.get r).isSome = true → q.length ≤ p.length := by
  unfold resolveRole at h
  obtain ⟨a, ha, hfa, hmax⟩ := head?_filterMap_sorted (fun e : Key × SInfo => e.2.get r) (fun e => e.1.length)
    (matching m k) s h (matching_sorted m k)
  obtain ⟨ham, hap⟩ := (mem_matching m k a).mp ha
  refine ⟨a.1, a.2, ham, hap, hfa, ?_⟩
  intro q qi hq hqp hsome
  exact hmax (q, qi) ((mem_matching m k (q, qi)).mpr ⟨hq, hqp⟩) hsome

theorem mem_foldl_insertSet' (l : List Oid) : ∀ (acc : List Oid) (x : Oid),
    x ∈ l.foldl insertSet acc ↔ x ∈ acc ∨ x ∈ l := by
  induction l with
  | nil => intro acc x; simp
  | cons a r ih =>
    intro acc x
    simp only [List.foldl_cons, ih, mem_insertSet, List.mem_cons]
    constructor
    · rintro ((h | h) | h)
      · exact Or.inl h
      · exact Or.inr (Or.inl h)
      · exact Or.inr (Or.inr h)
    · rintro (h | h | h)
      · exact Or.inl (Or.inl h)
      · exact Or.inl (Or.inr h)
      · exact Or.inr h

theorem mem_oidsUnder (idx : LIndex) (p : Key) (x : Oid) :
    x ∈ oidsUnder idx p ↔ ∃ e ∈ idx, p.isPrefixOf e.1 = true ∧ e.2.hash = some x := by
  unfold oidsUnder
  rw [mem_foldl_insertSet']
  simp only [List.not_mem_nil, false_or, List.mem_filterMap]
  constructor
  · rintro ⟨e, he, h⟩
    split at h
    · rename_i hp; exact ⟨e, he, hp, h⟩
    · cases h
  · rintro ⟨e, he, hp, h⟩
    exact ⟨e, he, by simp [hp, h]⟩

theorem mem_plan_of (load : Oid → Option Listing) (idx : LIndex) (m : SMap) (r : Role) (s : StoreId)
    (p : Key) (info : SInfo) (hp : (p, info) ∈ m) (hr : info.get r = some s) (x : Oid)
    (hx : x ∈ oidsUnder (expand load idx) p) : x ∈ plan load idx m r s := by
  unfold plan
  simp only
  have hin : (p, info) ∈ m.filter fun e => e.2.get r = some s := List.mem_filter.mpr ⟨hp, by simp [hr]⟩
  generalize (m.filter fun e => e.2.get r = some s) = l at hin
  have key : ∀ (l : List (Key × SInfo)) (acc : List Oid), ((p, info) ∈ l ∨ x ∈ acc) →
      x ∈ l.foldl (fun acc e => (oidsUnder (expand load idx) e.1).foldl insertSet acc) acc := by
    intro l
    induction l with
    | nil => intro acc h; rcases h with h | h; simp at h; exact h
    | cons a rr ih =>
      intro acc h
      simp only [List.foldl_cons]
      apply ih
      rcases h with h | h
      · rcases List.mem_cons.mp h with h' | h'
        · right; rw [mem_foldl_insertSet']; right; rw [← h']; exact hx
        · exact Or.inl h'
      · right; rw [mem_foldl_insertSet']; exact Or.inl h
  exact key l [] (Or.inl hin)

/-- **push covers what is reachable**: every hashed entry of the (loaded) index — directory objects
    and the files they list — is planned for the remote that the mapping designates for its key -/
theorem push_covers_reach (load : Oid → Option Listing) (idx : LIndex) (m : SMap) (k : Key) (e : LEntry)
    (x : Oid) (s : StoreId) (he : (k, e) ∈ expand load idx) (hx : e.hash = some x)
    (hres : resolveRole m k .remote = some s) : x ∈ plan load idx m .remote s := by
  obtain ⟨p, info, hp, hpk, hr, _⟩ := resolve_longest_prefix_per_role m k .remote s hres
  exact mem_plan_of load idx m .remote s p info hp hr x
    ((mem_oidsUnder _ p x).mpr ⟨(k, e), he, hpk, hx⟩)

/-- **and nothing else is planned**: a planned object belongs to an entry below a prefix that
    designates this storage -/
theorem plan_sound (load : Oid → Option Listing) (idx : LIndex) (m : SMap) (r : Role) (s : StoreId) (x : Oid)
    (h : x ∈ plan load idx m r s) :
    ∃ p info, (p, info) ∈ m ∧ info.get r = some s ∧ ∃ e ∈ expand load idx, p.isPrefixOf e.1 = true ∧ e.2.hash = some x := by
  unfold plan at h
  simp only at h
  have key : ∀ (l : List (Key × SInfo)) (acc : List Oid),
      x ∈ l.foldl (fun acc e => (oidsUnder (expand load idx) e.1).foldl insertSet acc) acc →
      x ∈ acc ∨ ∃ a ∈ l, x ∈ oidsUnder (expand load idx) a.1 := by
    intro l
    induction l with
    | nil => intro acc h; exact Or.inl h
    | cons a rr ih =>
      intro acc h
      simp only [List.foldl_cons] at h
      rcases ih _ h with h' | ⟨b, hb, hxb⟩
      · rw [mem_foldl_insertSet'] at h'
        rcases h' with h'' | h''
        · exact Or.inl h''
        · exact Or.inr ⟨a, by simp, h''⟩
      · exact Or.inr ⟨b, List.mem_cons_of_mem _ hb, hxb⟩
  rcases key _ [] h with h' | ⟨a, ha, hxa⟩
  · simp at h'
  · obtain ⟨ham, hg⟩ := List.mem_filter.mp ha
    obtain ⟨e, he, hpe, hxe⟩ := (mem_oidsUnder _ a.1 x).mp hxa
    exact ⟨a.1, a.2, ham, by simpa using hg, e, he, hpe, hxe⟩

end DvcData.PushFetch
