import DvcData.Props.C09c
/-
  C09, "entries whose source is unavailable are reported through the error callback rather than silently skipped":
  in the creation phase of `apply`, every scheduled file whose object is not in the cache ends up in the error list, whatever
  else is scheduled and in whatever order (`createFile_reports_unavailable`, `apply_reports_unavailable`), and an error is only
  ever reported for a scheduled key (`createFile_errs_scheduled`).
-/
namespace DvcData.IndexCheckout
open DvcData Path MetaInfo IndexDiff List

/-- the object an entry names is not available in the cache (or the entry names none) -/
def Unavailable (cache : List Str) (e : Entry) : Prop :=
  match e.hashInfo with
  | none => True
  | some h =>
    match h.value with
    | none => True
    | some oid => h.truthy = false ∨ cache.contains oid = false

theorem createFile_errs_mono (cache : List Str) (acc : Ws × List Key) (p : Key × Entry) (k : Key) (h : k ∈ acc.2) :
    k ∈ (createFile cache acc p).2 := by
  obtain ⟨ws, errs⟩ := acc
  unfold createFile
  simp only
  split
  · exact mem_append_left _ h
  · split
    · exact mem_append_left _ h
    · split
      · exact mem_append_left _ h
      · split
        · exact mem_append_left _ h
        · split
          · exact mem_append_left _ h
          · split
            · exact mem_append_left _ h
            · exact h

theorem createFile_reports (cache : List Str) (acc : Ws × List Key) (p : Key × Entry) (hu : Unavailable cache p.2) :
    p.1 ∈ (createFile cache acc p).2 := by
  obtain ⟨ws, errs⟩ := acc
  unfold Unavailable at hu
  unfold createFile
  simp only
  cases hh : p.2.hashInfo with
  | none => simp
  | some h =>
    simp only [hh] at hu ⊢
    cases hv : h.value with
    | none => simp
    | some oid =>
      simp only [hv] at hu ⊢
      rcases hu with ht | hc
      · simp [ht]
      · by_cases ht : h.truthy = true
        · simp only [ht, Bool.not_true, Bool.false_eq_true, if_false]
          have hnm : oid ∉ cache := by simpa using hc
          cases makedirs ws p.1.dropLast with
          | none => simp
          | some ws1 => simp [hnm]
        · simp [ht]

theorem foldl_createFile_errs_mono (cache : List Str) : ∀ (ps : List (Key × Entry)) (acc : Ws × List Key) (k : Key),
    k ∈ acc.2 → k ∈ (ps.foldl (createFile cache) acc).2 := by
  intro ps
  induction ps with
  | nil => intro acc k h; exact h
  | cons p r ih => intro acc k h; exact ih _ k (createFile_errs_mono cache acc p k h)

/-- **every scheduled file whose object is unavailable is reported** -/
theorem createFile_reports_unavailable (cache : List Str) : ∀ (ps : List (Key × Entry)) (acc : Ws × List Key) (p : Key × Entry),
    p ∈ ps → Unavailable cache p.2 → p.1 ∈ (ps.foldl (createFile cache) acc).2 := by
  intro ps
  induction ps with
  | nil => intro acc p h; simp at h
  | cons q r ih =>
    intro acc p hp hu
    simp only [foldl_cons]
    rcases mem_cons.mp hp with rfl | hp
    · exact foldl_createFile_errs_mono cache r _ _ (createFile_reports cache acc p hu)
    · exact ih _ p hp hu

/-- an error is only ever reported for a key that was scheduled (or was in the list already) -/
theorem createFile_errs_scheduled (cache : List Str) : ∀ (ps : List (Key × Entry)) (acc : Ws × List Key) (k : Key),
    k ∈ (ps.foldl (createFile cache) acc).2 → k ∈ acc.2 ∨ ∃ p ∈ ps, p.1 = k := by
  intro ps
  induction ps with
  | nil => intro acc k h; exact Or.inl h
  | cons q r ih =>
    intro acc k h
    simp only [foldl_cons] at h
    rcases ih _ k h with h1 | ⟨p, hp, rfl⟩
    · -- one step adds at most the key of the entry
      have : k ∈ acc.2 ∨ k = q.1 := by
        obtain ⟨ws, errs⟩ := acc
        unfold createFile at h1
        simp only at h1
        split at h1
        · rcases mem_append.mp h1 with h2 | h2
          · exact Or.inl h2
          · exact Or.inr (by simpa using h2)
        · split at h1
          · rcases mem_append.mp h1 with h2 | h2
            · exact Or.inl h2
            · exact Or.inr (by simpa using h2)
          · split at h1
            · rcases mem_append.mp h1 with h2 | h2
              · exact Or.inl h2
              · exact Or.inr (by simpa using h2)
            · split at h1
              · rcases mem_append.mp h1 with h2 | h2
                · exact Or.inl h2
                · exact Or.inr (by simpa using h2)
              · split at h1
                · rcases mem_append.mp h1 with h2 | h2
                  · exact Or.inl h2
                  · exact Or.inr (by simpa using h2)
                · split at h1
                  · rcases mem_append.mp h1 with h2 | h2
                    · exact Or.inl h2
                    · exact Or.inr (by simpa using h2)
                  · exact Or.inl h1
      rcases this with h2 | rfl
      · exact Or.inl h2
      · exact Or.inr ⟨q, by simp, rfl⟩
    · exact Or.inr ⟨p, mem_cons_of_mem _ hp, rfl⟩

/-- **C09: an unavailable source is reported, never silently skipped.**  Whatever `apply` is given (any action lists, any
    workspace): if it returns, the keys it reports contain every file scheduled for creation whose object is not in the cache,
    and nothing that was not scheduled for creation. -/
theorem apply_reports_unavailable (cache : List Str) (a : Actions) (ws ws' : Ws) (errs : List Key)
    (h : apply cache a ws = .ok ws' errs) :
    (∀ p ∈ a.filesCreate, Unavailable cache p.2 → p.1 ∈ errs) ∧
    (∀ k ∈ errs, ∃ p ∈ a.filesCreate, p.1 = k) := by
  unfold apply at h
  simp only at h
  split at h
  · cases h
  · rename_i ws3 h3
    generalize hfold : foldl (createFile cache) (ws3, []) a.filesCreate = r at h
    obtain ⟨w4, e4⟩ := r
    simp only [Outcome.ok.injEq] at h
    obtain ⟨_, rfl⟩ := h
    constructor
    · intro p hp hu
      have := createFile_reports_unavailable cache a.filesCreate (ws3, []) p hp hu
      rw [hfold] at this; exact this
    · intro k hk
      have := createFile_errs_scheduled cache a.filesCreate (ws3, []) k (by rw [hfold]; exact hk)
      rcases this with h1 | h1
      · simp at h1
      · exact h1

end DvcData.IndexCheckout
