import DvcData.Model.State
import DvcData.Model.IndexDiff
import DvcData.Proofs.AList
/-!
# C13 — cached and carried-over hashes are never stale
-/
namespace DvcData.State
open DvcData AList

/-- history variable: every (path, stamp) a file ever had, with the bytes it had then -/
abbrev Used := List (Path × Stamp × Bytes)

/-- the algorithm a row vouches for (version-less `md5` rows are the legacy normalising hash) -/
def rowAlgo (r : Row) : Algo :=
  match r.version with
  | none => if r.algo = "md5" then "md5-dos2unix" else r.algo
  | some _ => r.algo

/-- **the invariant**: the filesystem is recorded in the history; a (path, stamp) pair never stood
    for two different contents (the runtime assumption: a mutation changes inode, mtime or size);
    every row was computed from the bytes the file had under the row's stamp -/
structure Coherent (H : Algo → Bytes → Digest) (db : Db) (fs : Fs) (used : Used) : Prop where
  recorded : ∀ p n, fs.lookup p = some n → (p, n.stamp, n.bytes) ∈ used
  functional : ∀ p s b b', (p, s, b) ∈ used → (p, s, b') ∈ used → b = b'
  rows : ∀ p r, db.lookup p = some r → ∃ b, (p, r.checksum, b) ∈ used ∧ r.value = H (rowAlgo r) b

theorem rowHit_some (r : Row) (n : Node) (a : Algo) (v : Digest) (h : rowHit r n = some (a, v)) :
    r.checksum = n.stamp ∧ a = rowAlgo r ∧ v = r.value := by
  unfold rowHit at h
  split at h
  · cases h
  · rename_i hc
    have hc' : r.checksum = n.stamp := by simpa using hc
    unfold rowAlgo
    cases hv : r.version with
    | none => simp [hv] at h; exact ⟨hc', h.1.symm, h.2.symm⟩
    | some ver =>
      simp only [hv] at h
      split at h
      · cases h
      · simp at h; exact ⟨hc', h.1.symm, h.2.symm⟩

/-- **a hit is the hash of the current bytes** -/
theorem hit_is_current_hash (H : Algo → Bytes → Digest) (db : Db) (fs : Fs) (used : Used)
    (hc : Coherent H db fs used) (loc : Bool) (p : Path) (a : Algo) (v : Digest)
    (h : get db fs loc p = some (a, v)) : ∃ n, fs.lookup p = some n ∧ v = H a n.bytes := by
  unfold get at h
  split at h
  · cases h
  · split at h
    · rename_i r n hr hn
      obtain ⟨h1, h2, h3⟩ := rowHit_some r n a v h
      obtain ⟨b, hb, hv⟩ := hc.rows p r hr
      have hrec := hc.recorded p n hn
      rw [h1] at hb
      have := hc.functional p n.stamp b n.bytes hb hrec
      refine ⟨n, hn, ?_⟩
      rw [h3, hv, h2, this]
    · cases h

/-- entries written by a newer format version never hit -/
theorem newer_version_ignored (r : Row) (n : Node) (v : Nat) (hv : r.version = some v) (h : v > HASH_VERSION) :
    rowHit r n = none := by
  unfold rowHit
  split
  · rfl
  · simp [hv, h]

/-- a non-local filesystem never gets an answer from the cache -/
theorem nonlocal_bypass (db : Db) (fs : Fs) (p : Path) : get db fs false p = none := by
  simp [get]

theorem save_coherent (H : Algo → Bytes → Digest) (db : Db) (fs : Fs) (used : Used)
    (hc : Coherent H db fs used) (p : Path) (algo : Algo) (n : Node) (hn : fs.lookup p = some n) :
    Coherent H (save db fs p algo (H algo n.bytes)) fs used := by
  refine ⟨hc.recorded, hc.functional, ?_⟩
  intro q r hr
  simp only [save, hn] at hr
  rw [AList.lookup_set] at hr
  split at hr
  · rename_i e
    simp at hr; subst hr; subst e
    exact ⟨n.bytes, hc.recorded p n hn, by simp [rowAlgo]⟩
  · exact hc.rows q r hr

/-- **`hash_file` through the cache returns the hash of the current bytes for the requested
    algorithm** (an entry recorded for another algorithm is never served), and keeps the invariant -/
theorem hashFile_correct (H : Algo → Bytes → Digest) (db : Db) (fs : Fs) (used : Used)
    (hc : Coherent H db fs used) (loc : Bool) (p : Path) (name : Algo) (v : Digest) (db' : Db)
    (h : hashFile H db fs loc p name = some (v, db')) :
    (∃ n, fs.lookup p = some n ∧ v = H name n.bytes) ∧ Coherent H db' fs used := by
  unfold hashFile at h
  split at h
  · cases h
  · rename_i n hn
    split at h
    · rename_i a w hg
      split at h
      · rename_i ha
        simp at h; obtain ⟨rfl, rfl⟩ := h
        obtain ⟨n', hn', hv⟩ := hit_is_current_hash H db fs used hc loc p a w hg
        rw [hn] at hn'; cases hn'
        exact ⟨⟨n, hn, by rw [hv, ha]⟩, hc⟩
      · simp at h; obtain ⟨rfl, rfl⟩ := h
        refine ⟨⟨n, hn, rfl⟩, ?_⟩
        split
        · exact save_coherent H db fs used hc p name n hn
        · exact hc
    · simp at h; obtain ⟨rfl, rfl⟩ := h
      refine ⟨⟨n, hn, rfl⟩, ?_⟩
      split
      · exact save_coherent H db fs used hc p name n hn
      · exact hc

/-- a mutation under a stamp that never stood for other bytes keeps the invariant: the old rows
    simply stop hitting -/
theorem mutate_coherent (H : Algo → Bytes → Digest) (db : Db) (fs : Fs) (used : Used)
    (hc : Coherent H db fs used) (p : Path) (b : Bytes) (s : Stamp)
    (hfresh : ∀ b', (p, s, b') ∈ used → b' = b) :
    Coherent H db (mutate fs p b s) ((p, s, b) :: used) := by
  refine ⟨?_, ?_, ?_⟩
  · intro q n hq
    simp only [mutate] at hq
    rw [AList.lookup_set] at hq
    split at hq
    · rename_i e; simp at hq; subst hq; subst e; simp
    · exact List.mem_cons_of_mem _ (hc.recorded q n hq)
  · intro q s' b1 b2 h1 h2
    rcases List.mem_cons.mp h1 with e1 | h1 <;> rcases List.mem_cons.mp h2 with e2 | h2
    · cases e1; cases e2; rfl
    · cases e1; exact (hfresh b2 h2).symm
    · cases e2; exact hfresh b1 h1
    · exact hc.functional q s' b1 b2 h1 h2
  · intro q r hr
    obtain ⟨b', hb', hv⟩ := hc.rows q r hr
    exact ⟨b', List.mem_cons_of_mem _ hb', hv⟩

theorem delete_coherent (H : Algo → Bytes → Digest) (db : Db) (fs : Fs) (used : Used)
    (hc : Coherent H db fs used) (p : Path) : Coherent H db (delete fs p) used := by
  refine ⟨?_, hc.functional, hc.rows⟩
  intro q n hq
  simp only [delete] at hq
  rw [AList.lookup_erase] at hq
  split at hq
  · cases hq
  · exact hc.recorded q n hq

/-! ### batch lookups -/

theorem batched_flatten (n : Nat) (hn : n ≠ 0) (l : List Path) : (batched n l).flatten = l := by
  induction hl : l.length using Nat.strongRecOn generalizing l with
  | _ k ih =>
    rw [batched]
    split
    · rename_i h
      rcases h with h | h
      · exact absurd h hn
      · simp [h]
    · rename_i h
      have hne : l ≠ [] := fun e => h (Or.inr e)
      simp only [List.flatten_cons]
      have hlen : (l.drop n).length < k := by
        rw [← hl, List.length_drop]
        cases l with
        | nil => exact absurd rfl hne
        | cons a r => simp; omega
      rw [ih _ hlen (l.drop n) rfl, List.take_append_drop]

/-- **batch and single lookups agree for any number of paths** (across the 999-parameter boundary) -/
theorem getMany_eq_map_get (db : Db) (fs : Fs) (loc : Bool) (ps : List Path) :
    getMany db fs loc ps = ps.map fun p => (p, get db fs loc p) := by
  unfold getMany
  have h := batched_flatten 999 (by decide) ps
  generalize batched 999 ps = bs at h
  subst h
  induction bs with
  | nil => rfl
  | cons c r ih => simp [List.flatMap_cons, ih]

end DvcData.State

namespace DvcData.IndexDiff
open DvcData MetaInfo

/-- `index/update.py`: carry the old hash over when the meta-only diff says "unchanged" -/
def updateEntry (old new : Entry) : Entry :=
  if diffEntry { metaOnly := true, withUnchanged := true } (some old) (some new) = .unchanged
  then { new with hashInfo := old.hashInfo } else new

/-- **a hash is carried over only across equal full metadata** (inode, mtime and size included;
    only `remote` is not compared) -/
theorem update_copies_only_equal_meta (old new : Entry)
    (h : (updateEntry old new).hashInfo ≠ new.hashInfo) :
    match old.mt, new.mt with
    | some a, some b => ({ a with remote := none } : Meta) = { b with remote := none }
    | none, none => True
    | _, _ => False := by
  unfold updateEntry at h
  split at h
  · rename_i hd
    simp only [diffEntry, decide3, Option.bind_some, if_true] at hd
    cases ho : old.mt <;> cases hn : new.mt <;> simp_all [diffMeta, cmpMeta, metaEq]
  · exact absurd rfl h

end DvcData.IndexDiff
