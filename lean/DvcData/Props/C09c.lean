import DvcData.Props.C09b
/-
  C09, "a second compare finds nothing left to create or delete".

  After `apply (compare true (indexOfWs ws) T) ws = ok ws'` the workspace `ws'` holds exactly the target's files
  (`apply_compare_converges`), directories only where the target has a node (`DirInv`), and a directory at every
  explicit directory entry of the target (`tdirs_final`); comparing `ws'` with the target again therefore schedules
  no file or directory for creation or deletion (`second_compare_nothing_left`).  What the second compare may still
  schedule is a `chmod` (the executable bit is only ever added: a file that is executable in the workspace but not in
  the target stays so).
-/
namespace DvcData.IndexCheckout
open DvcData Path MetaInfo IndexDiff

/-! ### a target directory where the old side has no directory is scheduled for creation -/

theorem compare_schedules_dir_create (delete : Bool) (old new : Option Index) (hwo : WFOpt old) (hwn : WFOpt new)
    (k : Key) (n : Entry) (hn : entryOf new k = some n) (hdir : isDirE n = true)
    (hneed : diffEntry { cmp := .dirExec } (entryOf old k) (some n) = .add ∨
      (diffEntry { cmp := .dirExec } (entryOf old k) (some n) = .modify ∧
        ∃ o, entryOf old k = some o ∧ isDirE o = false)) :
    (k, n) ∈ (compare delete old new).dirsCreate := by
  unfold compare
  have hb : HasBelow old k ∨ HasBelow new k := Or.inr (hasBelow_of_entryOf new k n hn)
  let c : Change := { typ := diffEntry { cmp := .dirExec } (entryOf old k) (entryOf new k),
                      old := (entryOf old k).map (k, ·), new := (entryOf new k).map (k, ·) }
  have hc : c ∈ hereOf { cmp := .dirExec } old new k := by
    unfold hereOf
    simp only [hn, Option.isNone_some, Bool.and_false, Bool.false_eq_true, if_false]
    have : diffEntry { cmp := .dirExec } (entryOf old k) (some n) ≠ .unchanged := by
      rcases hneed with h | ⟨h, _⟩ <;> rw [h] <;> simp
    simp [this, c, hn]
  apply foldl_stepChange_mem delete new (·.dirsCreate) (fun a b h q hq => h.2.2.2.1 q hq) (k, n) c ?_ _ _
    (change_in_diff old new hwo hwn k hb c hc)
  intro a
  unfold stepChange
  simp only [c, hn, Option.map_some]
  rcases hneed with h | ⟨h, o, ho, hof⟩
  · rw [h]
    simp only [addCreate, hdir, if_true]
    cases (entryOf old k).map (k, ·) <;> simp
  · rw [h, ho]
    simp only [Option.map_some]
    have hcond : o.hashInfo ≠ n.hashInfo ∨ isDirE o ≠ isDirE n := Or.inr (by rw [hof, hdir]; simp)
    simp only [hcond, if_true, hof, Bool.false_and, Bool.false_eq_true, if_false, addCreate, hdir]
    simp [addDelete, hof]

/-! ### a directory is scheduled for creation only where the old side has no directory -/

def DcInv (old : Option Index) (a : Actions) : Prop :=
  ∀ p ∈ a.dirsCreate, ∀ o, entryOf old p.1 = some o → isDirE o = false

theorem addDelete_dirsCreate (a : Actions) (p : Key × Entry) : (addDelete a p).dirsCreate = a.dirsCreate := by
  unfold addDelete; split <;> rfl

theorem mem_addCreate_dirsCreate (a : Actions) (p q : Key × Entry) (h : q ∈ (addCreate a p).dirsCreate) :
    q ∈ a.dirsCreate ∨ (q = p ∧ isDirE p.2 = true) := by
  unfold addCreate at h
  split at h
  · rename_i hd
    rcases List.mem_append.mp h with h | h
    · exact Or.inl h
    · simp only [List.mem_singleton] at h; exact Or.inr ⟨h, hd⟩
  · exact Or.inl h

theorem stepChange_dcInv (old new : Option Index) (a : Actions) (c : Change) (hs : Shape old new c)
    (h : DcInv old a) : DcInv old (stepChange true new a c) := by
  obtain ⟨k, hc | hc | hc⟩ := hs
  · obtain ⟨ht, ho, n, hn, hoe, _⟩ := hc
    unfold stepChange
    simp only [ht, ho, hn]
    intro q hq o' ho'
    rcases mem_addCreate_dirsCreate a (k, n) q hq with hq | ⟨rfl, _⟩
    · exact h q hq o' ho'
    · rw [hoe] at ho'; cases ho'
  · obtain ⟨ht, hn, o, ho, _, _⟩ := hc
    unfold stepChange
    simp only [ht, ho, hn, Bool.not_true, Bool.false_eq_true, if_false]
    split
    · exact h
    · intro q hq; rw [addDelete_dirsCreate] at hq; exact h q hq
  · obtain ⟨ht, o, n, ho, hn, hoe, _⟩ := hc
    unfold stepChange
    simp only [ht, ho, hn]
    split
    · split
      · exact h
      · rename_i hboth
        intro q hq o' ho'
        rcases mem_addCreate_dirsCreate _ (k, n) q hq with hq | ⟨rfl, hnd⟩
        · rw [addDelete_dirsCreate] at hq; exact h q hq o' ho'
        · rw [hoe] at ho'; injection ho' with ho'; subst ho'
          simp only [hnd, Bool.and_true] at hboth
          simpa using hboth
    · split
      · exact h
      · exact h

theorem compare_dcInv (old new : Option Index)
    (hom : ∀ k e, entryOf old k = some e → e.mt.isSome = true) (hnm : ∀ k e, entryOf new k = some e → e.mt.isSome = true) :
    DcInv old (compare true old new) := by
  unfold compare
  have : ∀ (cs : List Change) (a : Actions), (∀ c ∈ cs, Shape old new c) → DcInv old a →
      DcInv old (cs.foldl (stepChange true new) a) := by
    intro cs
    induction cs with
    | nil => intro a _ h; exact h
    | cons c r ih =>
      intro a hs h
      exact ih _ (fun x hx => hs x (List.mem_cons_of_mem _ hx)) (stepChange_dcInv old new a c (hs c (by simp)) h)
  apply this
  · intro c hc; exact change_shape old new hom hnm c hc
  · intro p hp; simp at hp

/-! ### the workspace after `apply`: directories -/

section final
variable (cache : List Str) (ws : Ws) (T : Index) (hw : WsOK ws) (ht : TargetOK cache T)

/-- directories sit only where the target has a node -/
def DirInv (w : Ws) : Prop := ∀ q, w.lookup q = some .dir → TAbove T q

/-- explicit directory entries of the target are directories -/
def TDirs (w : Ws) : Prop := ∀ q e, T.lookup q = some e → isDirE e = true → w.lookup q = some .dir

include hw ht

theorem not_tAbove (q : Key) (h : ¬ TAbove T q) : (T.lookup q = none ∧ hasNode T q = false) ∨ TFile T q := by
  cases hl : T.lookup q with
  | some e =>
    right
    cases hd : isDirE e with
    | false => exact ⟨e, hl, hd⟩
    | true => exact absurd ⟨q, e, hl, List.prefix_refl _, fun _ => hd⟩ h
  | none =>
    left
    refine ⟨rfl, ?_⟩
    cases hh : hasNode T q with
    | false => rfl
    | true =>
      obtain ⟨k, e, hk, hpre⟩ := hasNode_entry T q hh
      exact absurd ⟨k, e, hk, hpre, fun e' => by subst e'; rw [hl] at hk; cases hk⟩ h

theorem dirInv_ws2 : DirInv T (ws2 ws T) := by
  intro q hq
  apply Classical.byContradiction
  intro hn
  have hws := ws2_sub ws T hw q .dir hq
  have hsched := sched_dir_delete cache ws T hw ht q hws (not_tAbove cache ws T hw ht q hn)
  exact dd_gone cache ws T hw ht _ hsched hq

omit hw in
theorem dirInv_makedirs (w w' : Ws) (d : Key) (h : makedirs w d = some w')
    (hfree : ∀ q, q ≠ [] → q <+: d → notFile w q) (hab : ∀ q, q ≠ [] → q <+: d → TAbove T q)
    (hd : DirInv T w) : DirInv T w' ∧ (d ≠ [] → w'.lookup d = some .dir) := by
  obtain ⟨w'', h1, h2⟩ := makedirs_spec w d hfree
  rw [h] at h1; injection h1 with h1; subst h1
  constructor
  · intro q hq
    rw [h2 q] at hq
    cases hl : w.lookup q with
    | some n => rw [hl] at hq; simp only [Option.some.injEq] at hq; subst hq; exact hd q hl
    | none =>
      rw [hl] at hq; simp only at hq
      split at hq
      · rename_i hc; exact hab q hc.1 hc.2
      · cases hq
  · intro hne
    rw [h2 d]
    cases hl : w.lookup d with
    | some n =>
      cases n with
      | dir => rfl
      | file oid ex => exact absurd hl (hfree d hne (List.prefix_refl _) oid ex)
    | none => simp [hne]

omit hw in
theorem final_foldl_makedirs : ∀ (ds : List Key) (w w' : Ws), ds.foldlM makedirs w = some w' → Mid ws T w → DirInv T w →
    (∀ d ∈ ds, ∀ q, q ≠ [] → q <+: d → TAbove T q) →
    DirInv T w' ∧ ∀ d ∈ ds, d ≠ [] → w'.lookup d = some .dir := by
  intro ds
  induction ds with
  | nil => intro w w' h _ hd _; simp only [List.foldlM_nil] at h; cases h; exact ⟨hd, by simp⟩
  | cons d r ih =>
    intro w w' h hm hd hab
    simp only [List.foldlM_cons] at h
    obtain ⟨w1, h1, hm1, _⟩ := mid_makedirs cache ws T ht w hm d (hab d (by simp))
    rw [h1] at h
    have hstep := dirInv_makedirs cache T ht w w1 d h1
      (fun q hq hpre => hm.noFileAbove q hq (hab d (by simp) q hq hpre)) (hab d (by simp)) hd
    obtain ⟨hd', hrest⟩ := ih w1 w' h hm1 hstep.1 (fun d' hd' => hab d' (List.mem_cons_of_mem _ hd'))
    refine ⟨hd', ?_⟩
    intro x hx hne
    rcases List.mem_cons.mp hx with rfl | hx
    · exact foldlM_makedirs_keeps r w1 w' h x .dir (hstep.2 hne)
    · exact hrest x hx hne

theorem dirInv_createFile (w : Ws) (hm : Mid ws T w) (hd : DirInv T w) (p : Key × Entry)
    (hp : p ∈ (acts ws T).filesCreate) (errs : List Key) :
    DirInv T (createFile cache (w, errs) p).1 := by
  obtain ⟨hT, hf⟩ := fc_target cache ws T hw ht p hp
  obtain ⟨h, oid, hh, hv, htr, hc⟩ := ht.cached p.1 p.2 hT hf
  have hfile : TFile T p.1 := ⟨p.2, hT, hf⟩
  have hab : ∀ q, q ≠ [] → q <+: p.1.dropLast → TAbove T q := by
    intro q hq hpre
    refine ⟨p.1, p.2, hT, hpre.trans (List.dropLast_prefix _), fun e => ?_⟩
    exact absurd e.symm (not_prefix_dropLast p.1 q hpre hq)
  obtain ⟨w', h1, h2⟩ := createFile_ok cache w errs p.1 p.2 h oid hh hv htr hc
    (fun q hq hpre => hm.noFileAbove q hq (hab q hq hpre)) (hm.noDirAtFile p.1 hfile)
  rw [h1]
  intro q hq
  simp only at hq
  rw [h2 q] at hq
  by_cases e : p.1 = q
  · simp [e] at hq
  · simp only [e, if_false] at hq
    cases hl : w.lookup q with
    | some n => rw [hl] at hq; simp only [Option.some.injEq] at hq; subst hq; exact hd q hl
    | none =>
      rw [hl] at hq; simp only at hq
      split at hq
      · rename_i hc'; exact hab q hc'.1 hc'.2
      · cases hq

theorem final_foldl_createFile : ∀ (ps : List (Key × Entry)) (w : Ws), Mid ws T w → DirInv T w →
    (∀ p ∈ ps, p ∈ (acts ws T).filesCreate) → (errs : List Key) →
    DirInv T (ps.foldl (createFile cache) (w, errs)).1 := by
  intro ps
  induction ps with
  | nil => intro w _ hd _ _; exact hd
  | cons p r ih =>
    intro w hm hd hsub errs
    obtain ⟨w1, h1, hm1, _, _⟩ := mid_createFile cache ws T hw ht w hm p (hsub p (by simp)) errs
    have hd1 := dirInv_createFile cache ws T hw ht w hm hd p (hsub p (by simp)) errs
    rw [h1] at hd1
    simp only [List.foldl_cons, h1]
    exact ih w1 hm1 hd1 (fun q hq => hsub q (List.mem_cons_of_mem _ hq)) errs

omit hw ht in
theorem chmod_dir_iff (ps : List (Key × Entry)) : ∀ (w : Ws) (q : Key),
    (ps.foldl chmodFile w).lookup q = some .dir ↔ w.lookup q = some .dir := by
  induction ps with
  | nil => intro w q; exact Iff.rfl
  | cons p r ih =>
    intro w q
    simp only [List.foldl_cons]
    rw [ih, chmodFile_lookup]
    by_cases e : p.1 = q
    · simp only [e, if_true]
      cases hl : w.lookup q with
      | none => simp
      | some n => cases n <;> simp
    · simp [e]

/-! ### explicit directory entries of the target are there at the end -/

/-- a target directory entry that is not scheduled for creation is a directory of the workspace, and survives both
    deletion phases -/
theorem tdir_unscheduled (q : Key) (e : Entry) (he : T.lookup q = some e) (hd : isDirE e = true)
    (hns : (q, e) ∉ (acts ws T).dirsCreate) : (ws2 ws T).lookup q = some .dir := by
  have hwo : WFOpt (some (indexOfWs ws)) := wfIdx_indexOfWs ws hw
  have hwn : WFOpt (some T) := ht.wf
  have hne : entryOf (some T) q = some e := by rw [entryOf_target cache T ht, he]
  have hm := ht.hasMeta q e he
  -- the workspace has a directory at `q`
  have hwsq : ws.lookup q = some .dir := by
    apply Classical.byContradiction
    intro hnd
    apply hns
    unfold acts
    apply compare_schedules_dir_create true _ _ hwo hwn q e hne hd
    cases hk : ws.lookup q with
    | none =>
      left
      have : entryOf (some (indexOfWs ws)) q = none := by rw [entryOf_ws, hk]; rfl
      rw [this]; exact diffEntry_none_some _ rfl rfl e
    | some n =>
      cases n with
      | dir => exact absurd hk hnd
      | file oid ex =>
        right
        have hoe : entryOf (some (indexOfWs ws)) q = some (nodeEntry (.file oid ex)) := by rw [entryOf_ws, hk]; rfl
        rw [hoe]
        have hkind : isDirE (nodeEntry (.file oid ex)) ≠ isDirE e := by rw [hd]; simp [nodeEntry, isDirE]
        exact ⟨diffEntry_kind _ e rfl hm hkind, _, rfl, by simp [nodeEntry, isDirE]⟩
  -- no file scheduled for deletion is a prefix of `q`
  have h1 : (ws1 ws T).lookup q = some .dir := by
    rw [ws1_lookup]
    split
    · rename_i hex
      exfalso
      obtain ⟨p, hp, hpre⟩ := hex
      obtain ⟨pp, hpp, rfl⟩ := List.mem_map.mp hp
      obtain ⟨oid, ex, hfile, _⟩ := fd_ws cache ws T hw ht pp hpp
      by_cases heq : pp.1 = q
      · rw [heq, hwsq] at hfile; cases hfile
      · have hne' : pp.1 ≠ [] := by
          intro h0; rw [h0, hw.noRoot] at hfile; cases hfile
        have := hw.tree q .dir hwsq pp.1 hne' hpre heq
        rw [hfile] at this; cases this
    · exact hwsq
  -- and `q` is not scheduled for removal
  have hnotdd : q ∉ deepestFirst (ddKeys ws T) := by
    intro hmem
    have hmem' : q ∈ ddKeys ws T := (List.mergeSort_perm _ _).mem_iff.mp hmem
    obtain ⟨pp, hpp, rfl⟩ := List.mem_map.mp hmem'
    obtain ⟨_, _, _, hfile⟩ := (acts_inv2 cache ws T hw ht).ddelete pp hpp
    have := hfile e hne
    rw [hd] at this; cases this
  unfold ws2
  rw [foldl_rmdir_lookup_not_mem _ _ q hnotdd]
  exact h1

/-- **the workspace after a successful `apply`, completely**: files exactly as in the target, directories only where
    the target has a node, and a directory at every explicit directory entry of the target -/
theorem apply_compare_final :
    ∃ ws', apply cache (compare true (some (indexOfWs ws)) (some T)) ws = .ok ws' [] ∧
      (∀ k, oidAt ws' k = fileOid T k) ∧ DirInv T ws' ∧ TDirs T ws' := by
  have hm2 := mid_ws2 cache ws T hw ht
  have hd2 := dirInv_ws2 cache ws T hw ht
  have habs : ∀ d ∈ (acts ws T).dirsCreate.map (·.1), ∀ q, q ≠ [] → q <+: d → TAbove T q := by
    intro d hd q hq hpre
    obtain ⟨p, hp, rfl⟩ := List.mem_map.mp hd
    obtain ⟨hT, hdir⟩ := dc_target cache ws T hw ht p hp
    exact ⟨p.1, p.2, hT, hpre, fun _ => hdir⟩
  obtain ⟨w3, h3, hm3, _⟩ := mid_foldl_makedirs cache ws T ht ((acts ws T).dirsCreate.map (·.1)) (ws2 ws T) hm2 habs
  obtain ⟨hd3, hcreated⟩ := final_foldl_makedirs cache ws T ht _ (ws2 ws T) w3 h3 hm2 hd2 habs
  obtain ⟨w4, h4, hm4, hdone, _⟩ := mid_foldl_createFile cache ws T hw ht (acts ws T).filesCreate w3 hm3 (fun p hp => hp) []
  have hd4 : DirInv T w4 := by
    have := final_foldl_createFile cache ws T hw ht (acts ws T).filesCreate w3 hm3 hd3 (fun p hp => hp) []
    rw [h4] at this; exact this
  refine ⟨(acts ws T).filesChmod.foldl chmodFile w4, ?_, ?_, ?_, ?_⟩
  · unfold apply
    have e1 : (compare true (some (indexOfWs ws)) (some T)).filesDelete.foldl (fun w p => removePath w p.1) ws = ws1 ws T := by
      unfold ws1 fdKeys acts
      rw [List.foldl_map]
    simp only [e1]
    have e2 : (deepestFirst ((compare true (some (indexOfWs ws)) (some T)).dirsDelete.map (·.1))).foldl rmdir (ws1 ws T) = ws2 ws T := rfl
    rw [e2]
    have e3 : ((compare true (some (indexOfWs ws)) (some T)).dirsCreate.map (·.1)).foldlM makedirs (ws2 ws T) = some w3 := h3
    rw [e3]
    simp only
    have e4 : (compare true (some (indexOfWs ws)) (some T)).filesCreate.foldl (createFile cache) (w3, []) = (w4, []) := h4
    rw [e4]
    rfl
  · intro k
    rw [foldl_chmod_oidAt]
    by_cases hk : TFile T k
    · by_cases hin : ∃ p ∈ (acts ws T).filesCreate, p.1 = k
      · obtain ⟨p, hp, rfl⟩ := hin
        exact hdone p hp
      · exact hm4.unscheduledRight k hk (fun p hp e => hin ⟨p, hp, e⟩)
    · rw [fileOid_none_of_not_file T k hk]
      cases ho : oidAt w4 k with
      | none => rfl
      | some o => exact absurd (hm4.filesInTarget k (by rw [ho]; simp)) hk
  · intro q hq
    exact hd4 q ((chmod_dir_iff _ w4 q).mp hq)
  · intro q e he hde
    apply (chmod_dir_iff _ w4 q).mpr
    have hq3 : w3.lookup q = some .dir := by
      by_cases hs : (q, e) ∈ (acts ws T).dirsCreate
      · have hne : q ≠ [] := by intro h0; rw [h0, ht.noRoot] at he; cases he
        exact hcreated q (List.mem_map.mpr ⟨(q, e), hs, rfl⟩) hne
      · exact foldlM_makedirs_keeps _ (ws2 ws T) w3 h3 q .dir (tdir_unscheduled cache ws T hw ht q e he hde hs)
    have hnf : ∀ p ∈ (acts ws T).filesCreate, p.1 ≠ q := by
      intro p hp heq
      obtain ⟨hT, hf⟩ := fc_target cache ws T hw ht p hp
      rw [heq, he] at hT; injection hT with hT; rw [← hT, hde] at hf; cases hf
    have := foldl_createFile_keeps cache (acts ws T).filesCreate (w3, []) q .dir hnf hq3
    rw [h4] at this; exact this

/-- **C09: a second compare finds nothing left to create or delete.**  For every workspace, every well-formed target whose
    file objects are cached and whose file hashes carry the name `md5` (the name `md5(build(ws))` records): after the
    apply, comparing the resulting workspace with the target again schedules no file and no directory for creation or
    deletion. -/
theorem second_compare_nothing_left
    (hname : ∀ k e h, T.lookup k = some e → isDirE e = false → e.hashInfo = some h → h.name = some kMd5) :
    ∃ ws', apply cache (compare true (some (indexOfWs ws)) (some T)) ws = .ok ws' [] ∧
      (compare true (some (indexOfWs ws')) (some T)).filesCreate = [] ∧
      (compare true (some (indexOfWs ws')) (some T)).filesDelete = [] ∧
      (compare true (some (indexOfWs ws')) (some T)).dirsCreate = [] ∧
      (compare true (some (indexOfWs ws')) (some T)).dirsDelete = [] := by
  obtain ⟨ws', happ, hfiles, hdirs, htd⟩ := apply_compare_final cache ws T hw ht
  refine ⟨ws', happ, ?_⟩
  have hom : ∀ k e, entryOf (some (indexOfWs ws')) k = some e → e.mt.isSome = true := fun k e h => oldMeta ws' k e h
  have hnm : ∀ k e, entryOf (some T) k = some e → e.mt.isSome = true := by
    intro k e h; rw [entryOf_target cache T ht] at h; exact ht.hasMeta k e h
  have hinv := compare_inv2 (some (indexOfWs ws')) (some T) hom hnm
  have hdc := compare_dcInv (some (indexOfWs ws')) (some T) hom hnm
  -- a file of the final workspace and the target's file entry at the same key carry the same hash
  have same : ∀ k oid ex e, ws'.lookup k = some (.file oid ex) → T.lookup k = some e → isDirE e = false →
      (nodeEntry (.file oid ex)).hashInfo = e.hashInfo := by
    intro k oid ex e hk he hf
    obtain ⟨h, o2, hh, hv, _, _⟩ := ht.cached k e he hf
    have h1 := hfiles k
    unfold oidAt fileOid at h1
    rw [hk, he] at h1
    simp only [hf, Bool.false_eq_true, if_false, hh, Option.bind_some, hv] at h1
    have hn := hname k e h he hf hh
    rw [hh]
    simp only [nodeEntry, Option.some.injEq]
    cases h
    simp only at hv hn
    simp only [HashInfo.mk.injEq]
    exact ⟨hn.symm, by rw [hv]; exact h1⟩
  refine ⟨?_, ?_, ?_, ?_⟩
  · -- nothing to create
    apply List.eq_nil_iff_forall_not_mem.mpr
    intro p hp
    obtain ⟨hd, hne, hreason⟩ := hinv.fcreate p hp
    rw [entryOf_target cache T ht] at hne
    have hfo : fileOid T p.1 ≠ none := by
      obtain ⟨h, o2, hh, hv, _, _⟩ := ht.cached p.1 p.2 hne hd
      unfold fileOid; rw [hne]; simp [hd, hh, hv]
    rw [← hfiles p.1] at hfo
    obtain ⟨oid, ex, hk⟩ := oidAt_some ws' p.1 hfo
    have hoe : entryOf (some (indexOfWs ws')) p.1 = some (nodeEntry (.file oid ex)) := by rw [entryOf_ws, hk]; rfl
    rcases hreason _ hoe with h1 | h1
    · exact h1 (same p.1 oid ex p.2 hk hne hd)
    · rw [hd] at h1; simp [nodeEntry, isDirE] at h1
  · -- nothing to delete (files)
    apply List.eq_nil_iff_forall_not_mem.mpr
    intro p hp
    obtain ⟨hd, hoe, hreason⟩ := hinv.fdelete p hp
    rw [entryOf_ws] at hoe
    cases hl : ws'.lookup p.1 with
    | none => rw [hl] at hoe; cases hoe
    | some n =>
      rw [hl] at hoe; simp only [Option.map_some] at hoe; injection hoe with hoe
      cases n with
      | dir => rw [← hoe] at hd; simp [nodeEntry, isDirE] at hd
      | file oid ex =>
        have hne : oidAt ws' p.1 ≠ none := by unfold oidAt; rw [hl]; simp
        rw [hfiles p.1] at hne
        have htf : TFile T p.1 := by
          apply Classical.byContradiction
          intro hnot
          exact hne (fileOid_none_of_not_file T p.1 hnot)
        obtain ⟨e, he, hf⟩ := htf
        have hnew : entryOf (some T) p.1 = some e := by rw [entryOf_target cache T ht, he]
        rcases hreason e hnew with h1 | h1
        · rw [← hoe] at h1; exact h1 (same p.1 oid ex e hl he hf)
        · rw [hd, hf] at h1; exact h1 rfl
  · -- no directory to create
    apply List.eq_nil_iff_forall_not_mem.mpr
    intro p hp
    obtain ⟨hd, hne⟩ := hinv.dcreate p hp
    rw [entryOf_target cache T ht] at hne
    have hthere := htd p.1 p.2 hne hd
    have hoe : entryOf (some (indexOfWs ws')) p.1 = some (nodeEntry .dir) := by rw [entryOf_ws, hthere]; rfl
    have := hdc p hp _ hoe
    simp [nodeEntry, isDirE] at this
  · -- no directory to delete
    apply List.eq_nil_iff_forall_not_mem.mpr
    intro p hp
    obtain ⟨hd, hoe, hnone, hfile⟩ := hinv.ddelete p hp
    rw [entryOf_ws] at hoe
    cases hl : ws'.lookup p.1 with
    | none => rw [hl] at hoe; cases hoe
    | some n =>
      rw [hl] at hoe; simp only [Option.map_some] at hoe; injection hoe with hoe
      cases n with
      | file oid ex => rw [← hoe] at hd; simp [nodeEntry, isDirE] at hd
      | dir =>
        obtain ⟨k, e, hk, hpre, hkd⟩ := hdirs p.1 hl
        rw [entryOf_target cache T ht] at hnone hfile
        cases hT : T.lookup p.1 with
        | none =>
          have := hnone hT
          simp only [newHasNode] at this
          rw [hasNode_of_entry T p.1 k e hk hpre] at this; cases this
        | some n =>
          have hfn := hfile n hT
          by_cases heq : p.1 = k
          · rw [← heq, hT] at hk; injection hk with hk; subst hk
            rw [hkd heq] at hfn; cases hfn
          · obtain ⟨suffix, rfl⟩ := hpre
            have hs : suffix ≠ [] := by intro h; subst h; simp at heq
            have := ht.wf p.1 suffix e n hs hk hT
            rw [fixMeta_of_some n (ht.hasMeta p.1 n hT), entryIsDir_eq, hfn] at this; cases this

end final

/-- the hypotheses are met by the example of `C09b` (a stale file, a file replaced by a directory, a nested directory to be
    removed): its target's file hashes carry the name `md5` -/
example : ∃ ws', apply [['9'], ['2']] (compare true (some (indexOfWs exWs)) (some exT)) exWs = .ok ws' [] ∧
    (compare true (some (indexOfWs ws')) (some exT)).filesCreate = [] ∧
    (compare true (some (indexOfWs ws')) (some exT)).filesDelete = [] ∧
    (compare true (some (indexOfWs ws')) (some exT)).dirsCreate = [] ∧
    (compare true (some (indexOfWs ws')) (some exT)).dirsDelete = [] :=
  second_compare_nothing_left _ exWs exT (wsOK_of_check exWs (by decide)) (targetOK_of_check _ exT (by decide)) (by
    intro k e h hl _ hh
    have hm := AList.mem_of_lookup exT k e hl
    simp only [exT, List.mem_cons, Prod.mk.injEq, List.mem_nil_iff, or_false] at hm
    rcases hm with ⟨_, rfl⟩ | ⟨_, rfl⟩ <;> (simp only [Option.some.injEq] at hh; subst hh; rfl))

end DvcData.IndexCheckout
