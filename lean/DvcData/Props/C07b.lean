import DvcData.Model.StoreAdd
import DvcData.Props.C07
/-
  C07, "a store configured to verify never retains a mismatching object after an add".

  `effVerify`: how one `add` call resolves the verification wish (an explicit `None` - what `transfer()` forwards and
  `fetch` passes - means the store's own setting).  `verifying_add_rejects_mismatch`: when the effective flag is on, a
  copy whose bytes do not match the name is not in the store afterwards and the add reports the corruption;
  `verifying_add_keeps_intact`: a matching copy is kept (and is read-only in a local store).
-/
namespace DvcData.Store
open DvcData State

theorem effVerify_none (sv : Bool) : effVerify sv none = sv := rfl
theorem effVerify_some (sv b : Bool) : effVerify sv (some b) = b := rfl

/-- a verifying store verifies unless the caller says `False` in so many words -/
theorem effVerify_verifying_store (arg : Option Bool) (h : arg ≠ some false) : effVerify true arg = true := by
  cases arg with
  | none => rfl
  | some b => cases b with
    | true => rfl
    | false => exact absurd rfl h

theorem fsOf_set_mutate (st : Store) (oid : Oid) (o : Obj) : fsOf (st.set oid o) = mutate (fsOf st) oid o.data o.stamp :=
  fsOf_set st oid o

/-- **a verifying add never retains a mismatching copy** (the object was not there before; the copy gets a stamp that
    never stood for other bytes - the C13 freshness assumption) -/
theorem verifying_add_rejects_mismatch (H : Algo → Bytes → Digest) (localClass : Bool) (name : Algo)
    (storeVerify : Bool) (arg : Option Bool) (db : Db) (st : Store) (used : Used)
    (hc : Coherent H db (fsOf st) used) (hv : effVerify storeVerify arg = true)
    (oid : Oid) (data : Bytes) (s : Stamp) (hnew : st.lookup oid = none)
    (hfresh : ∀ b', (oid, s, b') ∈ used → b' = data)
    (hbad : strip (H name data) ≠ strip oid) :
    (add H localClass name storeVerify arg db st oid data s).1 = .corrupt ∧
    (add H localClass name storeVerify arg db st oid data s).2.1.lookup oid = none := by
  unfold add addVerify
  simp only [hv, if_true]
  have hpre : check H localClass name db st oid = (.notFound, st, db) := by simp [check, hnew]
  rw [hpre]
  have hnc : st.contains oid = false := by simp [AList.contains, hnew]
  simp only [hnc, Bool.false_eq_true, if_false]
  have hc1 : Coherent H db (fsOf (st.set oid { data := data, prot := false, stamp := s })) ((oid, s, data) :: used) := by
    rw [fsOf_set_mutate]
    exact mutate_coherent H db (fsOf st) used hc oid data s hfresh
  have hl1 : (st.set oid { data := data, prot := false, stamp := s }).lookup oid = some { data := data, prot := false, stamp := s } := by
    rw [AList.lookup_set]; simp
  obtain ⟨h1, h2⟩ := check_rejects_corrupt H localClass name db _ _ hc1 oid _ hl1 (by simp) hbad
  refine ⟨h1, ?_⟩
  rw [h2, AList.lookup_erase]; simp

/-- **an intact copy is kept**, and is read-only afterwards in a local store -/
theorem verifying_add_keeps_intact (H : Algo → Bytes → Digest) (localClass : Bool) (name : Algo)
    (storeVerify : Bool) (arg : Option Bool) (db : Db) (st : Store) (used : Used)
    (hc : Coherent H db (fsOf st) used) (hv : effVerify storeVerify arg = true)
    (oid : Oid) (data : Bytes) (s : Stamp) (hnew : st.lookup oid = none)
    (hfresh : ∀ b', (oid, s, b') ∈ used → b' = data)
    (hgood : strip (H name data) = strip oid) :
    (add H localClass name storeVerify arg db st oid data s).1 = .ok ∧
    (add H localClass name storeVerify arg db st oid data s).2.1.lookup oid =
      some { data := data, prot := localClass, stamp := s } := by
  unfold add addVerify
  simp only [hv, if_true]
  have hpre : check H localClass name db st oid = (.notFound, st, db) := by simp [check, hnew]
  rw [hpre]
  have hnc : st.contains oid = false := by simp [AList.contains, hnew]
  simp only [hnc, Bool.false_eq_true, if_false]
  have hc1 : Coherent H db (fsOf (st.set oid { data := data, prot := false, stamp := s })) ((oid, s, data) :: used) := by
    rw [fsOf_set_mutate]
    exact mutate_coherent H db (fsOf st) used hc oid data s hfresh
  have hl1 : (st.set oid { data := data, prot := false, stamp := s }).lookup oid = some { data := data, prot := false, stamp := s } := by
    rw [AList.lookup_set]; simp
  obtain ⟨h1, h2⟩ := check_accepts_intact H localClass name db _ _ hc1 oid _ hl1 hgood
  refine ⟨h1, ?_⟩
  rw [h2]; simp

/-- without verification (an explicit `False`, or a store that does not verify and no wish) the copy is filed as it is -/
example (H : Algo → Bytes → Digest) (localClass : Bool) (name : Algo) (db : Db) (st : Store) (oid : Oid) (data : Bytes) (s : Stamp)
    (hnew : st.lookup oid = none) :
    (add H localClass name true (some false) db st oid data s).2.1.lookup oid = some { data := data, prot := localClass, stamp := s } := by
  have hnc : st.contains oid = false := by simp [AList.contains, hnew]
  simp [add, effVerify, hnc, addOne, AList.lookup_set]

end DvcData.Store
