import DvcData.Model.IndexLazy
import DvcData.Proofs.AList
import DvcData.Proofs.Lazy
/-!
# C17 — lazy directory loading, filtered views and the fs adaptor are transparent
-/
namespace DvcData.IndexLazy
open DvcData Path AList

theorem lookup_setAll_of_not_mem (es : LIndex) : ∀ (idx : LIndex) (k : Key),
    (∀ c ∈ es, c.1 ≠ k) → (setAll idx es).lookup k = idx.lookup k := by
  induction es with
  | nil => intro idx k _; rfl
  | cons c r ih =>
    intro idx k h
    simp only [setAll, List.foldl_cons]
    have := ih (idx.set c.1 c.2) k (fun x hx => h x (List.mem_cons_of_mem _ hx))
    simp only [setAll] at this
    rw [this, AList.lookup_set]
    simp [h c (by simp)]

/-- the last write wins; if every write to `k` carries `v`, the lookup gives `v` -/
theorem lookup_setAll_mem (es : LIndex) : ∀ (idx : LIndex) (k : Key) (v : LEntry),
    (k, v) ∈ es → (∀ c ∈ es, c.1 = k → c.2 = v) → (setAll idx es).lookup k = some v := by
  induction es with
  | nil => intro idx k v h; simp at h
  | cons c r ih =>
    intro idx k v hm hf
    simp only [setAll, List.foldl_cons]
    by_cases hin : ∃ x ∈ r, x.1 = k
    · obtain ⟨x, hx, hk⟩ := hin
      have hxv : x.2 = v := hf x (List.mem_cons_of_mem _ hx) hk
      have hmem : (k, v) ∈ r := by rw [← hk, ← hxv]; exact hx
      exact ih (idx.set c.1 c.2) k v hmem (fun y hy => hf y (List.mem_cons_of_mem _ hy))
    · have hnot : ∀ x ∈ r, x.1 ≠ k := fun x hx hk => hin ⟨x, hx, hk⟩
      have hc : c = (k, v) := by
        rcases List.mem_cons.mp hm with h | h
        · exact h.symm
        · exact absurd rfl (hnot (k, v) h)
      have := lookup_setAll_of_not_mem r (idx.set c.1 c.2) k hnot
      simp only [setAll] at this
      rw [this, AList.lookup_set, hc]; simp

/-- **loading is idempotent** -/
theorem loadAt_idempotent (load : Oid → Option Listing) (idx : LIndex) (d : Key) :
    loadAt load (loadAt load idx d) d = loadAt load idx d := by
  unfold loadAt
  cases hl : idx.lookup d with
  | none => simp [hl]
  | some e =>
    simp only
    by_cases hc : (e.isdir && !e.loaded) = true
    · simp only [hc, if_true]
      cases hh : e.hash.bind load with
      | none => simp [hl, hc, hh]
      | some l =>
        simp only
        have : ((setAll idx (childrenOf d l)).set d { e with loaded := true }).lookup d = some { e with loaded := true } := by
          rw [AList.lookup_set]; simp
        simp [this]
    · have hc' : (e.isdir && !e.loaded) = false := by simpa using hc
      simp [hc', hl]

/-- loading a directory leaves every entry that is neither the directory nor one of the listed
    paths untouched -/
theorem loadAt_other (load : Oid → Option Listing) (idx : LIndex) (d k : Key) (hk : k ≠ d)
    (hnb : ∀ l e, idx.lookup d = some e → e.hash.bind load = some l → ∀ c ∈ childrenOf d l, c.1 ≠ k) :
    (loadAt load idx d).lookup k = idx.lookup k := by
  unfold loadAt
  cases hl : idx.lookup d with
  | none => rfl
  | some e =>
    simp only
    split
    · cases hh : e.hash.bind load with
      | none => rfl
      | some l =>
        simp only
        rw [AList.lookup_set]
        have hd : ¬ d = k := fun h => hk h.symm
        simp only [hd, if_false]
        exact lookup_setAll_of_not_mem _ idx k (hnb l e hl hh)
    · rfl

/-- **a file listed by an unloaded directory object is found through the lazy index exactly as
    the directory object lists it**: looking `d ++ rel` up loads `d` and returns the listed file -/
theorem getItem_below (load : Oid → Option Listing) (idx : LIndex) (d rel : Key) (f : Oid)
    (e : LEntry) (l : Listing)
    (habsent : idx.lookup (d ++ rel) = none)
    (hlp : longestPrefix idx (d ++ rel) = some d)
    (hd : idx.lookup d = some e) (hdir : e.isdir = true) (hun : e.loaded = false)
    (hload : e.hash.bind load = some l)
    (hmem : (rel, f) ∈ l) (hrel : rel ≠ [])
    (hfun : ∀ c ∈ childrenOf d l, c.1 = d ++ rel → c.2 = { isdir := false, hash := some f, loaded := false }) :
    (getItem load idx (d ++ rel)).2 = some { isdir := false, hash := some f, loaded := false } := by
  unfold getItem
  simp only [habsent, hlp]
  unfold loadAt
  simp only [hd, hdir, hun, Bool.not_false, Bool.and_self, if_true, hload]
  rw [AList.lookup_set]
  have hne : ¬ d = d ++ rel := by
    intro h
    have := congrArg List.length h
    simp only [List.length_append] at this
    exact hrel (List.eq_nil_of_length_eq_zero (by omega))
  simp only [hne, if_false]
  apply lookup_setAll_mem _ idx (d ++ rel) _ ?_ hfun
  unfold childrenOf
  apply List.mem_append_left
  exact List.mem_map.mpr ⟨(rel, f), hmem, rfl⟩

/-- an entry that is present is returned as it is, without loading anything -/
theorem getItem_present (load : Oid → Option Listing) (idx : LIndex) (k : Key) (e : LEntry)
    (h : idx.lookup k = some e) : getItem load idx k = (idx, some e) := by
  simp [getItem, h]

/-- **a filtered view exposes precisely the entries (of the expanded index) whose keys satisfy
    the filter** -/
theorem view_exact (load : Oid → Option Listing) (idx : LIndex) (f : Key → Bool) (p : Key × LEntry) :
    p ∈ viewItems load idx f ↔ (p ∈ expand load idx ∧ f p.1 = true) := by
  simp [viewItems, List.mem_filter]


/-! ### the refinement: every sequence of lookups answers as on the expanded index -/

/-- a sequence of lookups through a lazy index (each may load a directory and thereby change the index) -/
def runGets (load : Oid → Option Listing) : LIndex → List Key → LIndex × List (Option (Bool × Option Oid))
  | idx, [] => (idx, [])
  | idx, k :: r =>
    let (idx1, a) := getItem load idx k
    let (idx2, as) := runGets load idx1 r
    (idx2, a.map proj :: as)

theorem getItem_preserves (load : Oid → Option Listing) (hlo : ListingsOK load) (idx : LIndex) (hw : W1 idx) (k : Key) :
    W1 (getItem load idx k).1 ∧ ∀ k', denote load (getItem load idx k).1 k' = denote load idx k' := by
  unfold getItem
  cases hk : idx.lookup k with
  | some e => exact ⟨hw, fun _ => rfl⟩
  | none =>
    simp only
    cases hlp : longestPrefix idx k with
    | none => exact ⟨hw, fun _ => rfl⟩
    | some d => exact ⟨loadAt_W1 load hlo idx hw d, fun k' => loadAt_denote load hlo idx hw d k'⟩

/-- **C17 (lookups).** For a well-formed lazy index, *every* sequence of lookups — in whatever order they
    trigger the loading of directory objects — answers each key with the meaning of the original index at
    that key; the index stays well-formed and keeps its meaning. -/
theorem lazy_lookups_answer_denote (load : Oid → Option Listing) (hlo : ListingsOK load) :
    ∀ (ks : List Key) (idx : LIndex), W1 idx →
      (runGets load idx ks).2 = ks.map (denote load idx) ∧ W1 (runGets load idx ks).1 ∧
      ∀ k', denote load (runGets load idx ks).1 k' = denote load idx k' := by
  intro ks
  induction ks with
  | nil => intro idx hw; exact ⟨rfl, hw, fun _ => rfl⟩
  | cons k r ih =>
    intro idx hw
    obtain ⟨hw1, hden1⟩ := getItem_preserves load hlo idx hw k
    obtain ⟨h1, h2, h3⟩ := ih (getItem load idx k).1 hw1
    simp only [runGets, List.map_cons]
    refine ⟨?_, h2, fun k' => (h3 k').trans (hden1 k')⟩
    rw [h1, getItem_denote]
    congr 1
    exact List.map_congr_left (fun k' _ => hden1 k')

theorem foldl_loadAt_preserves (load : Oid → Option Listing) (hlo : ListingsOK load) :
    ∀ (ds : List Key) (idx : LIndex), W1 idx →
      W1 (ds.foldl (loadAt load) idx) ∧ ∀ k, denote load (ds.foldl (loadAt load) idx) k = denote load idx k := by
  intro ds
  induction ds with
  | nil => intro idx hw; exact ⟨hw, fun _ => rfl⟩
  | cons d r ih =>
    intro idx hw
    obtain ⟨h1, h2⟩ := ih (loadAt load idx d) (loadAt_W1 load hlo idx hw d)
    exact ⟨h1, fun k => (h2 k).trans (loadAt_denote load hlo idx hw d k)⟩

/-- loading everything (`index.load()`) keeps the meaning -/
theorem expand_denote (load : Oid → Option Listing) (hlo : ListingsOK load) (idx : LIndex) (hw : W1 idx) (k : Key) :
    denote load (expand load idx) k = denote load idx k :=
  (foldl_loadAt_preserves load hlo _ idx hw).2 k

/-- **C17 (lazy = expanded).** Any sequence of lookups gives the same answers on the lazy index as on the
    explicitly expanded one — loading on demand, in any order, is invisible. -/
theorem lazy_refines_expanded (load : Oid → Option Listing) (hlo : ListingsOK load) (idx : LIndex) (hw : W1 idx)
    (ks : List Key) : (runGets load idx ks).2 = (runGets load (expand load idx) ks).2 := by
  have hwe := (foldl_loadAt_preserves load hlo (idx.map (·.1)) idx hw).1
  rw [(lazy_lookups_answer_denote load hlo ks idx hw).1,
    (lazy_lookups_answer_denote load hlo ks (expand load idx) hwe).1]
  exact List.map_congr_left (fun k _ => (expand_denote load hlo idx hw k).symm)

/-! non-vacuity: an index with an unloaded directory object `d` listing `a` and `s/b` -/
def exLoad : Oid → Option Listing := fun o => if o = "t.dir" then some [([['a']], "1"), ([['s'], ['b']], "2")] else none
def exIdx : LIndex := [([['d']], { isdir := true, hash := some "t.dir", loaded := false }), ([['f']], { isdir := false, hash := some "9", loaded := true })]

example : (runGets exLoad exIdx [[['d'], ['s'], ['b']], [['d'], ['s']], [['f']], [['d'], ['x']]]).2 =
    [some (false, some "2"), some (true, none), some (false, some "9"), none] := by decide

end DvcData.IndexLazy
