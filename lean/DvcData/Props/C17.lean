import DvcData.Model.IndexLazy
import DvcData.Proofs.AList
import DvcData.Proofs.Lazy
/-!
# C17 — lazy directory loading, filtered views and the fs adaptor are transparent
-/
namespace DvcData.IndexLazy
open DvcData Path AList

theorem lookup_setAll_of_not_mem (es : LIndex) : ∀ (idx : LIndex) (k : Key),
    (∀ c ∈ es, c.1 ≠ k) → (setAll idx es).lookup k = idx.lookup k := by
  induction es with
  | nil => intro idx k _; rfl
  | cons c r ih =>
    intro idx k h
    simp only [setAll, List.foldl_cons]
    have := ih (idx.set c.1 c.2) k (fun x hx => h x (List.mem_cons_of_mem _ hx))
    simp only [setAll] at this
    rw [this, AList.lookup_set]
    simp [h c (by simp)]

/-- the last write wins; if every write to `k` carries `v`, the lookup gives `v` -/
theorem lookup_setAll_mem (es : LIndex) : ∀ (idx : LIndex) (k : Key) (v : LEntry),
    (k, v) ∈ es → (∀ c ∈ es, c.1 = k → c.2 = v) → (setAll idx es).lookup k = some v := by
  induction es with
  | nil => intro idx k v h; simp at h
  | cons c r ih =>
    intro idx k v hm hf
    simp only [setAll, List.foldl_cons]
    by_cases hin : ∃ x ∈ r, x.1 = k
    · obtain ⟨x, hx, hk⟩ := hin
      have hxv : x.2 = v := hf x (List.mem_cons_of_mem _ hx) hk
      have hmem : (k, v) ∈ r := by rw [← hk, ← hxv]; exact hx
      exact ih (idx.set c.1 c.2) k v hmem (fun y hy => hf y (List.mem_cons_of_mem _ hy))
    · have hnot : ∀ x ∈ r, x.1 ≠ k := fun x hx hk => hin ⟨x, hx, hk⟩
      have hc : c = (k, v) := by
        rcases List.mem_cons.mp hm with h | h
        · exact h.symm
        · exact absurd rfl (hnot (k, v) h)
      have := lookup_setAll_of_not_mem r (idx.set c.1 c.2) k hnot
      simp only [setAll] at this
      rw [this, AList.lookup_set, hc]; simp

/-- **loading is idempotent** -/
theorem loadAt_idempotent (load : Oid → Option Listing) (idx : LIndex) (d : Key) :
    loadAt load (loadAt load idx d) d = loadAt load idx d := by
  unfold loadAt
  cases hl : idx.lookup d with
  | none => simp [hl]
  | some e =>
    simp only
    by_cases hc : (e.isdir && !e.loaded) = true
    · simp only [hc, if_true]
      cases hh : e.hash.bind load with
      | none => simp [hl, hc, hh]
      | some l =>
        simp only
        have : ((setAll idx (childrenOf d l)).set d { e with loaded := true }).lookup d = some { e with loaded := true } := by
          rw [AList.lookup_set]; simp
        simp [this]
    · have hc' : (e.isdir && !e.loaded) = false := by simpa using hc
      simp [hc', hl]

/-- loading a directory leaves every entry that is neither the directory nor one of the listed
    paths untouched -/
theorem loadAt_other (load : Oid → Option Listing) (idx : LIndex) (d k : Key) (hk : k ≠ d)
    (hnb : ∀ l e, idx.lookup d = some e → e.hash.bind load = some l → ∀ c ∈ childrenOf d l, c.1 ≠ k) :
    (loadAt load idx d).lookup k = idx.lookup k := by
  unfold loadAt
  cases hl : idx.lookup d with
  | none => rfl
  | some e =>
    simp only
    split
    · cases hh : e.hash.bind load with
      | none => rfl
      | some l =>
        simp only
        rw [AList.lookup_set]
        have hd : ¬ d = k := fun h => hk h.symm
        simp only [hd, if_false]
        exact lookup_setAll_of_not_mem _ idx k (hnb l e hl hh)
    · rfl

/-- **a file listed by an unloaded directory object is found through the lazy index exactly as
    the directory object lists it**: looking `d ++ rel` up loads `d` and returns the listed file -/
theorem getItem_below (load : Oid → Option Listing) (idx : LIndex) (d rel : Key) (f : Oid)
    (e : LEntry) (l : Listing)
    (habsent : idx.lookup (d ++ rel) = none)
    (hlp : longestPrefix idx (d ++ rel) = some d)
    (hd : idx.lookup d = some e) (hdir : e.isdir = true) (hun : e.loaded = false)
    (hload : e.hash.bind load = some l)
    (hmem : (rel, f) ∈ l) (hrel : rel ≠ [])
    (hfun : ∀ c ∈ childrenOf d l, c.1 = d ++ rel → c.2 = { isdir := false, hash := some f, loaded := false }) :
    (getItem load idx (d ++ rel)).2 = some { isdir := false, hash := some f, loaded := false } := by
  unfold getItem
  simp only [habsent, hlp]
  unfold loadAt
  simp only [hd, hdir, hun, Bool.not_false, Bool.and_self, if_true, hload]
  rw [AList.lookup_set]
  have hne : ¬ d = d ++ rel := by
    intro h
    have := congrArg List.length h
    simp only [List.length_append] at this
    exact hrel (List.eq_nil_of_length_eq_zero (by omega))
  simp only [hne, if_false]
  apply lookup_setAll_mem _ idx (d ++ rel) _ ?_ hfun
  unfold childrenOf
  apply List.mem_append_left
  exact List.mem_map.mpr ⟨(rel, f), hmem, rfl⟩

/-- an entry that is present is returned as it is, without loading anything -/
theorem getItem_present (load : Oid → Option Listing) (idx : LIndex) (k : Key) (e : LEntry)
    (h : idx.lookup k = some e) : getItem load idx k = (idx, some e) := by
  simp [getItem, h]

/-- **a filtered view exposes precisely the entries (of the expanded index) whose keys satisfy
    the filter** -/
theorem view_exact (load : Oid → Option Listing) (idx : LIndex) (f : Key → Bool) (p : Key × LEntry) :
    p ∈ viewItems load idx f ↔ (p ∈ expand load idx ∧ f p.1 = true) := by
  simp [viewItems, List.mem_filter]


/-! ### the refinement: every sequence of lookups answers as on the expanded index -/

/-- a sequence of lookups through a lazy index (each may load a directory and thereby change the index) -/
def runGets (load : Oid → Option Listing) : LIndex → List Key → LIndex × List (Option (Bool × Option Oid))
  | idx, [] => (idx, [])
  | idx, k :: r =>
    let (idx1, a) := getItem load idx k
    let (idx2, as) := runGets load idx1 r
    (idx2, a.map proj :: as)

theorem getItem_preserves (load : Oid → Option Listing) (hlo : ListingsOK load) (idx : LIndex) (hw : W1 idx) (k : Key) :
    W1 (getItem load idx k).1 ∧ ∀ k', denote load (getItem load idx k).1 k' = denote load idx k' := by
  unfold getItem
  cases hk : idx.lookup k with
  | some e => exact ⟨hw, fun _ => rfl⟩
  | none =>
    simp only
    cases hlp : longestPrefix idx k with
    | none => exact ⟨hw, fun _ => rfl⟩
    | some d => exact ⟨loadAt_W1 load hlo idx hw d, fun k' => loadAt_denote load hlo idx hw d k'⟩

/-- **C17 (lookups).** For a well-formed lazy index, *every* sequence of lookups — in whatever order they
    trigger the loading of directory objects — answers each key with the meaning of the original index at
    that key; the index stays well-formed and keeps its meaning. -/
theorem lazy_lookups_answer_denote (load : Oid → Option Listing) (hlo : ListingsOK load) :
    ∀ (ks : List Key) (idx : LIndex), W1 idx →
      (runGets load idx ks).2 = ks.map (denote load idx) ∧ W1 (runGets load idx ks).1 ∧
      ∀ k', denote load (runGets load idx ks).1 k' = denote load idx k' := by
  intro ks
  induction ks with
  | nil => intro idx hw; exact ⟨rfl, hw, fun _ => rfl⟩
  | cons k r ih =>
    intro idx hw
    obtain ⟨hw1, hden1⟩ := getItem_preserves load hlo idx hw k
    obtain ⟨h1, h2, h3⟩ := ih (getItem load idx k).1 hw1
    simp only [runGets, List.map_cons]
    refine ⟨?_, h2, fun k' => (h3 k').trans (hden1 k')⟩
    rw [h1, getItem_denote]
    congr 1
    exact List.map_congr_left (fun k' _ => hden1 k')

theorem foldl_loadAt_preserves (load : Oid → Option Listing) (hlo : ListingsOK load) :
    ∀ (ds : List Key) (idx : LIndex), W1 idx →
      W1 (ds.foldl (loadAt load) idx) ∧ ∀ k, denote load (ds.foldl (loadAt load) idx) k = denote load idx k := by
  intro ds
  induction ds with
  | nil => intro idx hw; exact ⟨hw, fun _ => rfl⟩
  | cons d r ih =>
    intro idx hw
    obtain ⟨h1, h2⟩ := ih (loadAt load idx d) (loadAt_W1 load hlo idx hw d)
    exact ⟨h1, fun k => (h2 k).trans (loadAt_denote load hlo idx hw d k)⟩

/-- loading everything (`index.load()`) keeps the meaning -/
theorem expand_denote (load : Oid → Option Listing) (hlo : ListingsOK load) (idx : LIndex) (hw : W1 idx) (k : Key) :
    denote load (expand load idx) k = denote load idx k :=
  (foldl_loadAt_preserves load hlo _ idx hw).2 k

/-- **C17 (lazy = expanded).** Any sequence of lookups gives the same answers on the lazy index as on the
    explicitly expanded one — loading on demand, in any order, is invisible. -/
theorem lazy_refines_expanded (load : Oid → Option Listing) (hlo : ListingsOK load) (idx : LIndex) (hw : W1 idx)
    (ks : List Key) : (runGets load idx ks).2 = (runGets load (expand load idx) ks).2 := by
  have hwe := (foldl_loadAt_preserves load hlo (idx.map (·.1)) idx hw).1
  rw [(lazy_lookups_answer_denote load hlo ks idx hw).1,
    (lazy_lookups_answer_denote load hlo ks (expand load idx) hwe).1]
  exact List.map_congr_left (fun k _ => (expand_denote load hlo idx hw k).symm)

/-! ### iteration and listing also keep the meaning -/

/-- iterating under a prefix (which loads what it needs on the way) leaves the index well-formed and does not
    change what it means at any key -/
theorem iterItems_preserves (load : Oid → Option Listing) (hlo : ListingsOK load) (idx : LIndex) (hw : W1 idx) (pfx : Key) :
    W1 (iterItems load idx pfx).1 ∧ ∀ k, denote load (iterItems load idx pfx).1 k = denote load idx k := by
  have key : ∀ (i1 : LIndex), (W1 i1 ∧ ∀ k, denote load i1 k = denote load idx k) →
      W1 (((i1.filter fun e => pfx.isPrefixOf e.1).map (·.1)).foldl (loadAt load) i1) ∧
      ∀ k, denote load (((i1.filter fun e => pfx.isPrefixOf e.1).map (·.1)).foldl (loadAt load) i1) k = denote load idx k := by
    intro i1 ⟨hw1, hd1⟩
    obtain ⟨hw2, hd2⟩ := foldl_loadAt_preserves load hlo ((i1.filter fun e => pfx.isPrefixOf e.1).map (·.1)) i1 hw1
    exact ⟨hw2, fun k => (hd2 k).trans (hd1 k)⟩
  unfold iterItems
  simp only
  split
  · split
    · exact key idx ⟨hw, fun _ => rfl⟩
    · exact key _ ⟨loadAt_W1 load hlo idx hw _, fun k => loadAt_denote load hlo idx hw _ k⟩
  · exact key idx ⟨hw, fun _ => rfl⟩

/-! no key is bound twice, before or after loading -/

theorem keys_set (d : LIndex) (k : Key) (v : LEntry) :
    AList.keys (d.set k v) = if k ∈ AList.keys d then AList.keys d else AList.keys d ++ [k] := by
  induction d with
  | nil => simp [AList.set, AList.keys]
  | cons p r ih =>
    obtain ⟨k', v'⟩ := p
    simp only [AList.set]
    by_cases h : k' = k
    · subst h; simp [AList.keys]
    · have hne : ¬ k = k' := fun e => h e.symm
      simp only [h, if_false]
      have ih' := ih
      simp only [AList.keys] at ih' ⊢
      simp only [List.map_cons, List.mem_cons, hne, false_or, ih']
      split <;> simp_all

theorem set_WF (d : LIndex) (hd : AList.WF d) (k : Key) (v : LEntry) : AList.WF (d.set k v) := by
  unfold AList.WF at *
  rw [keys_set]
  split
  · exact hd
  · rename_i hn
    exact List.nodup_append.mpr ⟨hd, by simp, by intro a ha b hb; simp at hb; subst hb; exact fun e => hn (e ▸ ha)⟩

theorem setAll_WF (es : LIndex) : ∀ (idx : LIndex), AList.WF idx → AList.WF (setAll idx es) := by
  induction es with
  | nil => intro idx h; exact h
  | cons c r ih => intro idx h; exact ih _ (set_WF idx h c.1 c.2)

theorem loadAt_WF (load : Oid → Option Listing) (idx : LIndex) (h : AList.WF idx) (d : Key) : AList.WF (loadAt load idx d) := by
  unfold loadAt
  split
  · split
    · split
      · exact set_WF _ (setAll_WF _ _ h) _ _
      · exact h
    · exact h
  · exact h

theorem foldl_loadAt_WF (load : Oid → Option Listing) : ∀ (ks : List Key) (idx : LIndex), AList.WF idx →
    AList.WF (ks.foldl (loadAt load) idx) := by
  intro ks
  induction ks with
  | nil => intro idx h; exact h
  | cons k r ih => intro idx h; exact ih _ (loadAt_WF load idx h k)

theorem iterItems_WF (load : Oid → Option Listing) (idx : LIndex) (h : AList.WF idx) (pfx : Key) :
    AList.WF (iterItems load idx pfx).1 := by
  unfold iterItems
  simp only
  split
  · split
    · exact foldl_loadAt_WF load _ _ h
    · exact foldl_loadAt_WF load _ _ (loadAt_WF load idx h _)
  · exact foldl_loadAt_WF load _ _ h

/-- whatever an iteration under a prefix yields lies under that prefix, and its kind and hash are what the
    original index means at that key (explicitly, or through the directory object the key lies in) -/
theorem iterItems_sound (load : Oid → Option Listing) (hlo : ListingsOK load) (idx : LIndex) (hw : W1 idx)
    (hwf : AList.WF idx) (pfx : Key) (p : Key × LEntry) (hp : p ∈ (iterItems load idx pfx).2) :
    pfx <+: p.1 ∧ denote load idx p.1 = some (proj p.2) := by
  have hpre := iterItems_preserves load hlo idx hw pfx
  have hwf2 := iterItems_WF load idx hwf pfx
  unfold iterItems at hp hwf2 hpre
  simp only at hp hwf2 hpre
  obtain ⟨hm, hpf⟩ := List.mem_filter.mp hp
  refine ⟨List.isPrefixOf_iff_prefix.mp hpf, ?_⟩
  rw [← hpre.2 p.1]
  have := AList.lookup_of_mem _ hwf2 p.1 p.2 hm
  simp [denote, this]

/-- two iterations under the same prefix — whatever was loaded in between by other lookups — mean the same:
    anything either yields is what the original index means there -/
theorem iterItems_after_lookups (load : Oid → Option Listing) (hlo : ListingsOK load) (idx : LIndex) (hw : W1 idx)
    (hwf : AList.WF idx) (ks : List Key) (pfx : Key) (p : Key × LEntry)
    (hp : p ∈ (iterItems load (ks.foldl (loadAt load) idx) pfx).2) :
    pfx <+: p.1 ∧ denote load idx p.1 = some (proj p.2) := by
  obtain ⟨hw', hd'⟩ := foldl_loadAt_preserves load hlo ks idx hw
  have := iterItems_sound load hlo _ hw' (foldl_loadAt_WF load ks idx hwf) pfx p hp
  exact ⟨this.1, (hd' p.1) ▸ this.2⟩

/-! ### iteration is complete: everything the index means under the prefix is yielded -/

/-- `d` is bound to a directory entry that is not loaded yet and whose directory object is available -/
def UL (load : Oid → Option Listing) (idx : LIndex) (d : Key) : Prop :=
  ∃ e, idx.lookup d = some e ∧ (e.isdir && !e.loaded) = true ∧ (e.hash.bind load).isSome = true

theorem child_not_unloaded (d : Key) (l : Listing) (c : Key × LEntry) (hc : c ∈ childrenOf d l) :
    (c.2.isdir && !c.2.loaded) = false := by
  unfold childrenOf at hc
  rcases List.mem_append.mp hc with h | h
  · obtain ⟨x, _, rfl⟩ := List.mem_map.mp h; rfl
  · obtain ⟨x, _, rfl⟩ := List.mem_map.mp h; rfl

/-- loading never creates an unloaded directory, and the one loaded is no longer unloaded -/
theorem loadAt_UL (load : Oid → Option Listing) (idx : LIndex) (x d : Key) (h : UL load (loadAt load idx x) d) :
    UL load idx d ∧ d ≠ x := by
  cases hx : idx.lookup x with
  | none =>
    have he : loadAt load idx x = idx := by unfold loadAt; simp [hx]
    rw [he] at h
    refine ⟨h, ?_⟩
    rintro rfl
    obtain ⟨e, h1, _⟩ := h
    rw [hx] at h1; cases h1
  | some ex =>
    by_cases hc : (ex.isdir && !ex.loaded) = true
    · cases hl : ex.hash.bind load with
      | none =>
        have he : loadAt load idx x = idx := by unfold loadAt; simp [hx, hc, hl]
        rw [he] at h
        refine ⟨h, ?_⟩
        rintro rfl
        obtain ⟨e, h1, _, h3⟩ := h
        rw [hx] at h1; cases h1
        rw [hl] at h3; cases h3
      | some l =>
        rw [loadAt_eq load idx x ex l hx hc hl] at h
        obtain ⟨e, h1, h2, h3⟩ := h
        rw [lookup_loadedIdx] at h1
        by_cases hxd : x = d
        · simp only [hxd, if_true] at h1
          cases h1
          simp at h2
        · simp only [hxd, if_false] at h1
          cases hch : (setAll [] (childrenOf x l)).lookup d with
          | some v =>
            rw [hch] at h1
            have hev : v = e := Option.some.inj h1
            subst hev
            have hm := lookup_setAll_nil_mem (childrenOf x l) d v hch
            have := child_not_unloaded x l (d, v) hm
            simp only at this
            rw [this] at h2; cases h2
          | none =>
            rw [hch] at h1
            exact ⟨⟨e, h1, h2, h3⟩, fun e' => hxd e'.symm⟩
    · have he : loadAt load idx x = idx := by unfold loadAt; simp [hx, hc]
      rw [he] at h
      refine ⟨h, ?_⟩
      rintro rfl
      obtain ⟨e, h1, h2, _⟩ := h
      rw [hx] at h1; cases h1
      exact hc h2

theorem foldl_loadAt_UL (load : Oid → Option Listing) : ∀ (ks : List Key) (idx : LIndex) (d : Key),
    UL load (ks.foldl (loadAt load) idx) d → UL load idx d ∧ d ∉ ks := by
  intro ks
  induction ks with
  | nil => intro idx d h; exact ⟨h, by simp⟩
  | cons k r ih =>
    intro idx d h
    obtain ⟨h1, h2⟩ := ih (loadAt load idx k) d h
    obtain ⟨h3, h4⟩ := loadAt_UL load idx k d h1
    exact ⟨h3, by simp [h4, h2]⟩

/-- what `below` answers comes from an unloaded, available directory object that is a prefix of the key -/
theorem below_some (load : Oid → Option Listing) (idx : LIndex) (k : Key) (v : LEntry) (h : below load idx k = some v) :
    ∃ d, d <+: k ∧ UL load idx d := by
  unfold below at h
  have hs := longestPrefix_spec idx k
  cases hlp : longestPrefix idx k with
  | none => rw [hlp] at h; cases h
  | some d =>
    rw [hlp] at h hs
    simp only at h hs
    cases hd : idx.lookup d with
    | none => rw [hd] at h; cases h
    | some e =>
      rw [hd] at h
      simp only at h
      by_cases hc : (e.isdir && !e.loaded) = true
      · rw [if_pos hc] at h
        cases hl : e.hash.bind load with
        | none => rw [hl] at h; cases h
        | some l => exact ⟨d, hs.2.1, e, hd, hc, by simp [hl]⟩
      · rw [if_neg hc] at h; cases h

/-- **iteration is complete**: every key under the prefix at which the index means something — explicitly, or
    through an unloaded directory object at, above or below the prefix — is yielded with exactly that meaning -/
theorem iterItems_complete (load : Oid → Option Listing) (hlo : ListingsOK load) (idx : LIndex) (hw : W1 idx)
    (pfx k : Key) (hk : pfx <+: k) (v : Bool × Option Oid) (hv : denote load idx k = some v) :
    ∃ e, (k, e) ∈ (iterItems load idx pfx).2 ∧ proj e = v := by
  have hpre := iterItems_preserves load hlo idx hw pfx
  have hd2 := hpre.2 k
  rw [hv] at hd2
  -- the index after iterating: explicit at k, or through a directory object
  cases hl : (iterItems load idx pfx).1.lookup k with
  | some e =>
    refine ⟨e, ?_, ?_⟩
    · have hm := AList.mem_of_lookup _ k e hl
      unfold iterItems at hm ⊢
      simp only at hm ⊢
      exact List.mem_filter.mpr ⟨hm, List.isPrefixOf_iff_prefix.mpr hk⟩
    · simp only [denote, hl] at hd2
      exact (Option.some.inj hd2)
  | none =>
    exfalso
    simp only [denote, hl] at hd2
    cases hb : below load (iterItems load idx pfx).1 k with
    | none => rw [hb] at hd2; cases hd2
    | some e' =>
      obtain ⟨d, hdk, hul⟩ := below_some load _ k e' hb
      -- d is still unloaded although available after the iteration: impossible
      unfold iterItems at hul
      simp only at hul
      rcases Nat.le_total pfx.length d.length with hlen | hlen
      · -- d at or below the prefix: it was in the list of keys loaded by the iteration
        have hpd : pfx <+: d := List.prefix_of_prefix_length_le hk hdk hlen
        obtain ⟨hul1, hnot⟩ := foldl_loadAt_UL load _ _ d hul
        apply hnot
        obtain ⟨e, he, _⟩ := hul1
        have hm := AList.mem_of_lookup _ d e he
        exact List.mem_map.mpr ⟨(d, e), List.mem_filter.mpr ⟨hm, List.isPrefixOf_iff_prefix.mpr hpd⟩, rfl⟩
      · -- d above the prefix
        have hdp : d <+: pfx := List.prefix_of_prefix_length_le hdk hk hlen
        obtain ⟨hul1, _⟩ := foldl_loadAt_UL load _ _ d hul
        by_cases hnil : pfx = []
        · -- then d = [] = pfx: same as the first case
          subst hnil
          have hdn : d = [] := List.prefix_nil.mp hdp
          subst hdn
          obtain ⟨_, hnot⟩ := foldl_loadAt_UL load _ _ [] hul
          apply hnot
          obtain ⟨e, he, _⟩ := hul1
          have hm := AList.mem_of_lookup _ [] e he
          exact List.mem_map.mpr ⟨([], e), List.mem_filter.mpr ⟨hm, by simp⟩, rfl⟩
        · have hs := longestPrefix_spec idx pfx
          cases hlp : longestPrefix idx pfx with
          | none =>
            rw [hlp] at hs hul1
            simp only at hs hul1
            obtain ⟨e, he, _⟩ := hul1
            exact hs d (by simp [he]) hdp
          | some d0 =>
            rw [hlp] at hs hul1
            simp only [hnil, if_false] at hs hul1
            obtain ⟨hul0, hne⟩ := loadAt_UL load idx d0 d hul1
            obtain ⟨e, he, hc, _⟩ := hul0
            exact hne (isLP_unique idx pfx d d0 (isLP_unloaded idx hw d pfx e he hc hdp) hs)

/-- what an iteration yields, up to kind and hash: exactly the meaning of the index under the prefix -/
theorem iterItems_exact (load : Oid → Option Listing) (hlo : ListingsOK load) (idx : LIndex) (hw : W1 idx)
    (hwf : AList.WF idx) (pfx k : Key) (v : Bool × Option Oid) :
    (∃ e, (k, e) ∈ (iterItems load idx pfx).2 ∧ proj e = v) ↔ (pfx <+: k ∧ denote load idx k = some v) := by
  constructor
  · rintro ⟨e, he, rfl⟩
    exact iterItems_sound load hlo idx hw hwf pfx (k, e) he
  · rintro ⟨hk, hv⟩
    exact iterItems_complete load hlo idx hw pfx k hk v hv

/-- **C17 (iteration, lazy = expanded).** Iterating under any prefix yields the same keys with the same kinds and
    hashes on the lazy index as on the fully expanded one — and also after any lookups loaded parts of it. -/
theorem iteration_lazy_eq_expanded (load : Oid → Option Listing) (hlo : ListingsOK load) (idx : LIndex) (hw : W1 idx)
    (hwf : AList.WF idx) (ks : List Key) (pfx k : Key) (v : Bool × Option Oid) :
    (∃ e, (k, e) ∈ (iterItems load (ks.foldl (loadAt load) idx) pfx).2 ∧ proj e = v) ↔
    (∃ e, (k, e) ∈ (iterItems load (expand load idx) pfx).2 ∧ proj e = v) := by
  obtain ⟨hw1, hd1⟩ := foldl_loadAt_preserves load hlo ks idx hw
  obtain ⟨hw2, hd2⟩ := foldl_loadAt_preserves load hlo (idx.map (·.1)) idx hw
  rw [iterItems_exact load hlo _ hw1 (foldl_loadAt_WF load ks idx hwf) pfx k v]
  unfold expand
  rw [iterItems_exact load hlo _ hw2 (foldl_loadAt_WF load _ idx hwf) pfx k v, hd1 k, hd2 k]

/-! ### listing the children of a key -/

theorem stripPrefix_some (k : Key) : ∀ (x r : Key), stripPrefix k x = some r → x = k ++ r := by
  induction k with
  | nil => intro x r h; simp [stripPrefix] at h; simp [h]
  | cons a t ih =>
    intro x r h
    cases x with
    | nil => simp [stripPrefix] at h
    | cons b u =>
      simp only [stripPrefix] at h
      split at h
      · rename_i hab; subst hab; simp [ih u r h]
      · cases h

theorem stripPrefix_append' (p rest : Key) : stripPrefix p (p ++ rest) = some rest := by
  induction p with
  | nil => rfl
  | cons a r ih => simp [stripPrefix, ih]

theorem mem_foldl_insertSet' (l : List Key) : ∀ (acc : List Key) (x : Key),
    x ∈ l.foldl insertSet acc ↔ x ∈ acc ∨ x ∈ l := by
  induction l with
  | nil => intro acc x; simp
  | cons a r ih =>
    intro acc x
    simp only [List.foldl_cons, ih, mem_insertSet, List.mem_cons]
    constructor
    · rintro ((h | h) | h)
      · exact Or.inl h
      · exact Or.inr (Or.inl h)
      · exact Or.inr (Or.inr h)
    · rintro (h | h | h)
      · exact Or.inl (Or.inl h)
      · exact Or.inl (Or.inr h)
      · exact Or.inr h

/-- after a lookup of `k`, no unloaded available directory object remains strictly above `k` -/
theorem getItem_no_UL_above (load : Oid → Option Listing) (idx : LIndex) (hw : W1 idx) (k d : Key)
    (hul : UL load (getItem load idx k).1 d) (hdk : d <+: k) : d = k := by
  unfold getItem at hul
  cases hk : idx.lookup k with
  | some e =>
    rw [hk] at hul
    simp only at hul
    obtain ⟨ed, hd, hc, _⟩ := hul
    exact (hw d ed hd hc k (by simp [hk]) hdk).symm
  | none =>
    rw [hk] at hul
    simp only at hul
    have hs := longestPrefix_spec idx k
    cases hlp : longestPrefix idx k with
    | none =>
      rw [hlp] at hs hul
      simp only at hs hul
      obtain ⟨ed, hd, _⟩ := hul
      exact absurd hdk (hs d (by simp [hd]))
    | some d0 =>
      rw [hlp] at hs hul
      simp only at hs hul
      obtain ⟨hul0, hne⟩ := loadAt_UL load idx d0 d hul
      obtain ⟨ed, hd, hc, _⟩ := hul0
      exact absurd (isLP_unique idx k d d0 (isLP_unloaded idx hw d k ed hd hc hdk) hs) hne

/-- the index `ls(k)` leaves behind keeps the meaning -/
theorem lsAt_preserves (load : Oid → Option Listing) (hlo : ListingsOK load) (idx : LIndex) (hw : W1 idx) (k : Key) :
    W1 (loadAt load (getItem load idx k).1 k) ∧
    ∀ q, denote load (loadAt load (getItem load idx k).1 k) q = denote load idx q := by
  obtain ⟨h1, h2⟩ := getItem_preserves load hlo idx hw k
  exact ⟨loadAt_W1 load hlo _ h1 k, fun q => (loadAt_denote load hlo _ h1 k q).trans (h2 q)⟩

/-- wherever the index means something at or below `k`, the index `ls(k)` works on has an explicit key
    between `k` and that key — strictly below `k` if the key is -/
theorem lsAt_explicit_between (load : Oid → Option Listing) (hlo : ListingsOK load) (idx : LIndex) (hw : W1 idx)
    (k q : Key) (hkq : k <+: q) (hq : (denote load idx q).isSome = true) :
    ∃ d, ((loadAt load (getItem load idx k).1 k).lookup d).isSome = true ∧ k <+: d ∧ d <+: q ∧ (q ≠ k → d ≠ k) := by
  obtain ⟨_, hden⟩ := lsAt_preserves load hlo idx hw k
  rw [← hden q] at hq
  unfold denote at hq
  cases hl : (loadAt load (getItem load idx k).1 k).lookup q with
  | some e => exact ⟨q, by simp [hl], hkq, List.prefix_refl q, fun h => h⟩
  | none =>
    rw [hl] at hq
    simp only [Option.isSome_map] at hq
    cases hb : below load (loadAt load (getItem load idx k).1 k) q with
    | none => rw [hb] at hq; cases hq
    | some e' =>
      obtain ⟨d, hdq, hul⟩ := below_some load _ q e' hb
      obtain ⟨hul1, hne⟩ := loadAt_UL load _ k d hul
      have hexp : ((loadAt load (getItem load idx k).1 k).lookup d).isSome = true := by
        obtain ⟨e, he, _⟩ := hul; simp [he]
      rcases Nat.le_total k.length d.length with hlen | hlen
      · exact ⟨d, hexp, List.prefix_of_prefix_length_le hkq hdq hlen, hdq, fun _ => hne⟩
      · have hdk : d <+: k := List.prefix_of_prefix_length_le hdq hkq hlen
        exact absurd (getItem_no_UL_above load idx hw k d hul1 hdk) hne

/-- **C17 (listing).** `ls(k)` on a lazy index names exactly the first path components below `k` under which
    the index means something — whether the entries there are explicit or come from directory objects at,
    above or below `k` -/
theorem lsAt_exact (load : Oid → Option Listing) (hlo : ListingsOK load) (idx : LIndex) (hw : W1 idx) (k : Key)
    (names : List Key) (h : (lsAt load idx k).2 = some names) (x : Key) :
    x ∈ names ↔ ∃ p rest, x = k ++ [p] ∧ (denote load idx (k ++ p :: rest)).isSome = true := by
  obtain ⟨_, hden⟩ := lsAt_preserves load hlo idx hw k
  unfold lsAt at h
  simp only at h
  split at h
  · cases h
  · simp only [Option.some.injEq] at h
    subst h
    rw [mem_foldl_insertSet']
    simp only [List.not_mem_nil, false_or, List.mem_filterMap]
    constructor
    · rintro ⟨e, he, hx⟩
      cases hs : stripPrefix k e.1 with
      | none => rw [hs] at hx; cases hx
      | some r =>
        rw [hs] at hx
        cases r with
        | nil => cases hx
        | cons p rest =>
          simp only [Option.some.injEq] at hx
          refine ⟨p, rest, hx.symm, ?_⟩
          rw [← stripPrefix_some k e.1 _ hs, ← hden e.1]
          have := lookup_isSome_of_mem _ e he
          unfold denote
          cases hl : (loadAt load (getItem load idx k).1 k).lookup e.1 with
          | some v => rfl
          | none => rw [hl] at this; cases this
    · rintro ⟨p, rest, rfl, hq⟩
      obtain ⟨d, hexp, hkd, hdq, hne⟩ := lsAt_explicit_between load hlo idx hw k (k ++ p :: rest)
        (List.prefix_append k _) hq
      have hdk : d ≠ k := hne (by
        intro e
        have := congrArg List.length e
        simp at this)
      obtain ⟨r, rfl⟩ := hkd
      obtain ⟨v, hv⟩ := mem_keys_of_lookup_isSome _ _ hexp
      refine ⟨(k ++ r, v), hv, ?_⟩
      rw [stripPrefix_append']
      have hr : r <+: p :: rest := (List.prefix_append_right_inj k).mp hdq
      cases r with
      | nil => exact absurd (by simp) hdk
      | cons a t =>
        have : a = p := (List.cons_prefix_cons.mp hr).1
        simp [this]

/-- `ls(k)` answers "no such directory" only when the index means nothing at or below `k` -/
theorem lsAt_none (load : Oid → Option Listing) (hlo : ListingsOK load) (idx : LIndex) (hw : W1 idx) (k : Key)
    (h : (lsAt load idx k).2 = none) (rest : Key) : denote load idx (k ++ rest) = none := by
  cases hq : denote load idx (k ++ rest) with
  | none => rfl
  | some v =>
    exfalso
    obtain ⟨d, hexp, hkd, _, _⟩ := lsAt_explicit_between load hlo idx hw k (k ++ rest)
      (List.prefix_append k _) (by simp [hq])
    obtain ⟨e, he⟩ := mem_keys_of_lookup_isSome _ _ hexp
    unfold lsAt at h
    simp only at h
    split at h
    · rename_i hn
      simp only [Bool.not_eq_true', List.any_eq_false] at hn
      exact hn (d, e) he (List.isPrefixOf_iff_prefix.mpr hkd)
    · cases h

/-- **C17 (views under a prefix).** A filtered view iterated under a prefix yields exactly the keys under the prefix
    that the filter accepts and at which the index means something - also when the prefix lies strictly inside a directory
    held as one unloaded entry (the case the unrepaired view answered with `KeyError`, F23) -/
theorem viewIter_exact (load : Oid → Option Listing) (hlo : ListingsOK load) (idx : LIndex) (hw : W1 idx)
    (hwf : AList.WF idx) (f : Key → Bool) (pfx k : Key) (v : Bool × Option Oid) :
    (∃ e, (k, e) ∈ (viewIter load idx f pfx).2 ∧ proj e = v) ↔
      (pfx <+: k ∧ f k = true ∧ denote load idx k = some v) := by
  unfold viewIter
  simp only [List.mem_filter]
  constructor
  · rintro ⟨e, ⟨hm, hf⟩, hp⟩
    obtain ⟨h1, h2⟩ := (iterItems_exact load hlo idx hw hwf pfx k v).mp ⟨e, hm, hp⟩
    exact ⟨h1, hf, h2⟩
  · rintro ⟨h1, hf, h2⟩
    obtain ⟨e, hm, hp⟩ := (iterItems_exact load hlo idx hw hwf pfx k v).mpr ⟨h1, h2⟩
    exact ⟨e, ⟨hm, hf⟩, hp⟩

/-- ... and leaves the meaning of the index as it was -/
theorem viewIter_preserves (load : Oid → Option Listing) (hlo : ListingsOK load) (idx : LIndex) (hw : W1 idx)
    (f : Key → Bool) (pfx : Key) :
    W1 (viewIter load idx f pfx).1 ∧ ∀ k, denote load (viewIter load idx f pfx).1 k = denote load idx k :=
  iterItems_preserves load hlo idx hw pfx

/-! non-vacuity: an index with an unloaded directory object `d` listing `a` and `s/b` -/
def exLoad : Oid → Option Listing := fun o => if o = "t.dir" then some [([['a']], "1"), ([['s'], ['b']], "2")] else none
def exIdx : LIndex := [([['d']], { isdir := true, hash := some "t.dir", loaded := false }), ([['f']], { isdir := false, hash := some "9", loaded := true })]

example : (runGets exLoad exIdx [[['d'], ['s'], ['b']], [['d'], ['s']], [['f']], [['d'], ['x']]]).2 =
    [some (false, some "2"), some (true, none), some (false, some "9"), none] := by decide

/-- iterating under `d/s` (strictly inside the unloaded directory object) yields exactly `d/s` and `d/s/b` -/
example : (iterItems exLoad exIdx [['d'], ['s']]).2.map (fun p => (p.1, proj p.2)) =
    [([['d'], ['s'], ['b']], (false, some "2")), ([['d'], ['s']], (true, none))] := by decide

/-- listing the unloaded directory names `d/a` and `d/s`; listing strictly inside it names `d/s/b` -/
example : (lsAt exLoad exIdx [['d']]).2 = some [[['d'], ['a']], [['d'], ['s']]] ∧
    (lsAt exLoad exIdx [['d'], ['s']]).2 = some [[['d'], ['s'], ['b']]] ∧
    (lsAt exLoad exIdx [['z']]).2 = none := by decide

example : AList.WF exIdx := by decide

example : ListingsOK exLoad := by
  intro o l h e he
  unfold exLoad at h
  split at h
  · cases h
    simp at he
    rcases he with rfl | rfl <;> simp
  · cases h

example : W1 exIdx := by
  intro d e hd hc q hq hdq
  unfold exIdx at hd hq
  simp only [AList.lookup_cons, AList.lookup_nil] at hd hq
  split at hd
  · rename_i h1
    subst h1
    split at hq
    · rename_i h2; exact h2.symm
    · split at hq
      · rename_i h3
        subst h3
        simp at hdq
      · simp at hq
  · split at hd
    · cases hd; simp at hc
    · cases hd

example : (viewIter exLoad exIdx (fun k => k != [['d'], ['a']]) [['d'], ['s']]).2.map (fun p => (p.1, proj p.2)) =
    [([['d'], ['s'], ['b']], (false, some "2")), ([['d'], ['s']], (true, none))] := by decide

end DvcData.IndexLazy
