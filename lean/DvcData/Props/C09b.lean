import DvcData.Props.C09
/-!
# C09 — end to end: `apply (compare ws target)` makes the workspace hold the target's files

Phase lemmas for the workspace operations, the classification of what `compare` schedules for a
workspace index against a target index, and their composition.
-/
namespace DvcData.IndexCheckout
open DvcData Path MetaInfo IndexDiff List

/-! ### association-list facts -/

theorem lookup_filter_key {ν : Type} (w : AList Key ν) (P : Key → Bool) (k : Key) :
    AList.lookup (w.filter fun e => P e.1) k = if P k then AList.lookup w k else none := by
  induction w with
  | nil => simp
  | cons a r ih =>
    obtain ⟨k', v⟩ := a
    simp only [List.filter]
    by_cases hp : P k' = true
    · simp only [hp, AList.lookup_cons, ih]
      by_cases e : k' = k
      · subst e; simp [hp]
      · simp [e]
    · have hp' : P k' = false := by simpa using hp
      simp only [hp', AList.lookup_cons, ih]
      by_cases e : k' = k
      · subst e; simp [hp']
      · simp [e]

theorem lookup_append_single {ν : Type} (w : AList Key ν) (p : Key) (v : ν) (k : Key) :
    AList.lookup (w ++ [(p, v)]) k = match AList.lookup w k with
      | some x => some x
      | none => if p = k then some v else none := by
  induction w with
  | nil => simp [AList.lookup_cons]
  | cons a r ih =>
    obtain ⟨k', v'⟩ := a
    simp only [List.cons_append, AList.lookup_cons, ih]
    by_cases e : k' = k <;> simp [e]

/-! ### phase 1: files scheduled for deletion -/

theorem removePath_lookup (w : Ws) (p k : Key) :
    (removePath w p).lookup k = if p <+: k then none else w.lookup k := by
  unfold removePath
  rw [lookup_filter_key w (fun x => !(p.isPrefixOf x)) k]
  by_cases h : p <+: k
  · simp [h, List.isPrefixOf_iff_prefix.mpr h]
  · have : p.isPrefixOf k = false := by
      cases hb : p.isPrefixOf k with
      | false => rfl
      | true => exact absurd (List.isPrefixOf_iff_prefix.mp hb) h
    simp [h, this]

theorem foldl_removePath_lookup (ps : List Key) : ∀ (w : Ws) (k : Key),
    (ps.foldl removePath w).lookup k = if ∃ p ∈ ps, p <+: k then none else w.lookup k := by
  induction ps with
  | nil => intro w k; simp
  | cons a r ih =>
    intro w k
    simp only [List.foldl_cons, ih, removePath_lookup, List.mem_cons, exists_eq_or_imp]
    by_cases h1 : ∃ p, p ∈ r ∧ p <+: k
    · simp [h1]
    · by_cases h2 : a <+: k <;> simp [h1, h2]

/-! ### phases 3 and 4: directories and files are created -/

def mkdirStep (w : Ws) (p : Key) : Option Ws :=
  match w.lookup p with
  | some .dir => some w
  | some (.file ..) => none
  | none => some (w ++ [(p, .dir)])

theorem makedirs_eq (w : Ws) (k : Key) : makedirs w k = (prefixes k).foldlM mkdirStep w := rfl

def notFile (w : Ws) (p : Key) : Prop := ∀ oid ex, w.lookup p ≠ some (.file oid ex)

/-- creating a chain of directories: succeeds unless a file is in the way; existing nodes stay, the
    missing ones become directories -/
theorem foldlM_mkdir_spec : ∀ (ps : List Key) (w : Ws), (∀ p ∈ ps, notFile w p) →
    ∃ w', ps.foldlM mkdirStep w = some w' ∧
      ∀ q, w'.lookup q = match w.lookup q with
        | some n => some n
        | none => if q ∈ ps then some .dir else none := by
  intro ps
  induction ps with
  | nil => intro w _; exact ⟨w, rfl, fun q => by cases w.lookup q <;> simp⟩
  | cons p r ih =>
    intro w hfree
    simp only [List.foldlM_cons]
    cases hp : w.lookup p with
    | none =>
      have hstep : mkdirStep w p = some (w ++ [(p, .dir)]) := by simp [mkdirStep, hp]
      have hfree' : ∀ p' ∈ r, notFile (w ++ [(p, .dir)]) p' := by
        intro p' hp' oid ex h
        rw [lookup_append_single] at h
        cases hw : w.lookup p' with
        | some n => rw [hw] at h; simp only at h; exact hfree p' (List.mem_cons_of_mem _ hp') oid ex (by rw [hw, h])
        | none => rw [hw] at h; simp only at h; split at h <;> cases h
      obtain ⟨w', h1, h2⟩ := ih (w ++ [(p, .dir)]) hfree'
      refine ⟨w', by simp [hstep, h1], ?_⟩
      intro q
      rw [h2 q, lookup_append_single]
      cases hq : w.lookup q with
      | some n => simp
      | none =>
        by_cases e : p = q
        · subst e; simp
        · have : ¬ q = p := fun h => e h.symm
          simp [e, this]
    | some n =>
      cases n with
      | dir =>
        have hstep : mkdirStep w p = some w := by simp [mkdirStep, hp]
        obtain ⟨w', h1, h2⟩ := ih w (fun p' hp' => hfree p' (List.mem_cons_of_mem _ hp'))
        refine ⟨w', by simp [hstep, h1], ?_⟩
        intro q
        rw [h2 q]
        cases hq : w.lookup q with
        | some n => rfl
        | none =>
          have : ¬ q = p := by intro e; subst e; rw [hp] at hq; cases hq
          simp [this]
      | file oid ex => exact absurd hp (hfree p (by simp) oid ex)

theorem mem_prefixes (k q : Key) : q ∈ prefixes k ↔ q ≠ [] ∧ q <+: k := by
  unfold prefixes
  simp only [List.mem_map, List.mem_range]
  constructor
  · rintro ⟨i, hi, rfl⟩
    refine ⟨?_, List.take_prefix _ _⟩
    intro h
    have := congrArg List.length h
    simp only [List.length_take, List.length_nil] at this
    omega
  · rintro ⟨hne, hpre⟩
    refine ⟨q.length - 1, ?_, ?_⟩
    · have := hpre.length_le
      cases q with
      | nil => exact absurd rfl hne
      | cons a r => simp at this ⊢; omega
    · have hl : q.length - 1 + 1 = q.length := by
        cases q with
        | nil => exact absurd rfl hne
        | cons a r => simp
      rw [hl]
      exact (List.prefix_iff_eq_take.mp hpre).symm

/-- `makedirs`: nothing that exists changes; the missing non-empty prefixes become directories -/
theorem makedirs_spec (w : Ws) (k : Key) (hfree : ∀ q, q ≠ [] → q <+: k → notFile w q) :
    ∃ w', makedirs w k = some w' ∧
      ∀ q, w'.lookup q = match w.lookup q with
        | some n => some n
        | none => if q ≠ [] ∧ q <+: k then some .dir else none := by
  obtain ⟨w', h1, h2⟩ := foldlM_mkdir_spec (prefixes k) w
    (fun p hp => hfree p ((mem_prefixes k p).mp hp).1 ((mem_prefixes k p).mp hp).2)
  refine ⟨w', by rw [makedirs_eq]; exact h1, ?_⟩
  intro q
  rw [h2 q]
  cases w.lookup q with
  | some n => rfl
  | none => simp only [mem_prefixes]

theorem not_prefix_dropLast (k q : Key) (hq : q <+: k.dropLast) (hne : q ≠ []) : k ≠ q := by
  intro e
  subst e
  have := hq.length_le
  simp only [List.length_dropLast] at this
  cases k with
  | nil => exact hne rfl
  | cons a r => simp at this; omega

/-- creating one file whose object is cached: the parents appear, the file holds the object -/
theorem createFile_ok (cache : List Str) (w : Ws) (errs : List Key) (k : Key) (n : Entry) (h : HashInfo) (oid : Str)
    (hh : n.hashInfo = some h) (hv : h.value = some oid) (ht : h.truthy = true) (hc : cache.contains oid = true)
    (hfree : ∀ q, q ≠ [] → q <+: k.dropLast → notFile w q) (hnd : w.lookup k ≠ some .dir) :
    ∃ w', createFile cache (w, errs) (k, n) = (w', errs) ∧
      ∀ q, w'.lookup q = if k = q then some (.file oid false) else
        match w.lookup q with
        | some x => some x
        | none => if q ≠ [] ∧ q <+: k.dropLast then some .dir else none := by
  obtain ⟨w1, h1, h2⟩ := makedirs_spec w k.dropLast hfree
  have hk1 : w1.lookup k ≠ some .dir := by
    rw [h2 k]
    cases hw : w.lookup k with
    | some x => simpa [hw] using hnd
    | none =>
      simp only
      split
      · rename_i hc'
        exact absurd rfl (not_prefix_dropLast k k hc'.2 hc'.1)
      · simp
  refine ⟨w1.set k (.file oid false), ?_, ?_⟩
  · unfold createFile
    simp only [hh, hv, ht, Bool.not_true, Bool.false_eq_true, if_false, h1, hc]
  · intro q
    rw [AList.lookup_set, h2 q]

theorem chmodFile_lookup (w : Ws) (p : Key × Entry) (q : Key) :
    (chmodFile w p).lookup q =
      if p.1 = q then (match w.lookup q with | some (.file oid _) => some (.file oid true) | x => x) else w.lookup q := by
  unfold chmodFile
  by_cases e : p.1 = q
  · subst e
    simp only [if_true]
    cases hl : w.lookup p.1 with
    | none => simp [hl]
    | some x =>
      cases x with
      | dir => simp [hl]
      | file oid ex => simp [AList.lookup_set]
  · simp only [e, if_false]
    cases hl : w.lookup p.1 with
    | none => rfl
    | some x =>
      cases x with
      | dir => rfl
      | file oid ex => simp [AList.lookup_set, e]

/-- the object identifier of the file at `k`, if there is a file -/
def oidAt (w : Ws) (k : Key) : Option Str :=
  match w.lookup k with
  | some (.file oid _) => some oid
  | _ => none

theorem foldl_chmod_oidAt (ps : List (Key × Entry)) : ∀ (w : Ws) (k : Key), oidAt (ps.foldl chmodFile w) k = oidAt w k := by
  induction ps with
  | nil => intro w k; rfl
  | cons p r ih =>
    intro w k
    simp only [List.foldl_cons, ih]
    unfold oidAt
    rw [chmodFile_lookup]
    by_cases e : p.1 = k
    · simp only [e, if_true]
      cases hl : w.lookup k with
      | none => rfl
      | some x => cases x <;> rfl
    · simp [e]

/-! ### nodes that the creation phases leave alone, and what `chmod` does -/

theorem mkdirStep_keeps (w w' : Ws) (p : Key) (h : mkdirStep w p = some w') (k : Key) (n : Node)
    (hk : w.lookup k = some n) : w'.lookup k = some n := by
  unfold mkdirStep at h
  cases hl : w.lookup p with
  | none =>
    rw [hl] at h
    simp only [Option.some.injEq] at h
    subst h
    rw [lookup_append_single, hk]
  | some x =>
    rw [hl] at h
    cases x with
    | dir => simp only [Option.some.injEq] at h; subst h; exact hk
    | file oid ex => cases h

theorem makedirs_keeps (w w' : Ws) (d : Key) (h : makedirs w d = some w') (k : Key) (n : Node)
    (hk : w.lookup k = some n) : w'.lookup k = some n := by
  rw [makedirs_eq] at h
  have : ∀ (ps : List Key) (w w' : Ws), ps.foldlM mkdirStep w = some w' → w.lookup k = some n → w'.lookup k = some n := by
    intro ps
    induction ps with
    | nil => intro w w' h hk; simp only [List.foldlM_nil] at h; cases h; exact hk
    | cons p r ih =>
      intro w w' h hk
      simp only [List.foldlM_cons] at h
      cases hs : mkdirStep w p with
      | none => rw [hs] at h; cases h
      | some w1 =>
        rw [hs] at h
        exact ih w1 w' h (mkdirStep_keeps w w1 p hs k n hk)
  exact this _ w w' h hk

theorem foldlM_makedirs_keeps : ∀ (ds : List Key) (w w' : Ws), ds.foldlM makedirs w = some w' → ∀ (k : Key) (n : Node),
    w.lookup k = some n → w'.lookup k = some n := by
  intro ds
  induction ds with
  | nil => intro w w' h k n hk; simp only [List.foldlM_nil] at h; cases h; exact hk
  | cons d r ih =>
    intro w w' h k n hk
    simp only [List.foldlM_cons] at h
    cases hs : makedirs w d with
    | none => rw [hs] at h; cases h
    | some w1 =>
      rw [hs] at h
      exact ih w1 w' h k n (makedirs_keeps w w1 d hs k n hk)

theorem createFile_keeps (cache : List Str) (w : Ws) (errs : List Key) (p : Key × Entry) (k : Key) (n : Node)
    (hne : k ≠ p.1) (hk : w.lookup k = some n) : (createFile cache (w, errs) p).1.lookup k = some n := by
  unfold createFile
  simp only
  cases hh : p.2.hashInfo with
  | none => exact hk
  | some h =>
    simp only
    cases hv : h.value with
    | none => exact hk
    | some oid =>
      simp only
      split
      · exact hk
      · cases hm : makedirs w p.1.dropLast with
        | none => exact hk
        | some w1 =>
          have hk1 := makedirs_keeps w w1 _ hm k n hk
          simp only
          split
          · exact hk1
          · split
            · exact hk1
            · simp only
              rw [AList.lookup_set]
              have : ¬ p.1 = k := fun e => hne e.symm
              simp [this, hk1]

theorem foldl_createFile_keeps (cache : List Str) : ∀ (ps : List (Key × Entry)) (acc : Ws × List Key) (k : Key) (n : Node),
    (∀ p ∈ ps, p.1 ≠ k) → acc.1.lookup k = some n → (ps.foldl (createFile cache) acc).1.lookup k = some n := by
  intro ps
  induction ps with
  | nil => intro acc k n _ hk; exact hk
  | cons p r ih =>
    intro acc k n hne hk
    simp only [List.foldl_cons]
    apply ih _ k n (fun q hq => hne q (List.mem_cons_of_mem _ hq))
    obtain ⟨w, errs⟩ := acc
    exact createFile_keeps cache w errs p k n (fun e => hne p (by simp) e.symm) hk

/-- `chmod` keeps a file a file with its content, and never clears the bit -/
theorem chmodFile_file (w : Ws) (p : Key × Entry) (k : Key) (oid : Str) (ex : Bool)
    (hk : w.lookup k = some (.file oid ex)) :
    (chmodFile w p).lookup k = some (.file oid (ex || decide (p.1 = k))) := by
  rw [chmodFile_lookup]
  by_cases e : p.1 = k
  · simp [e, hk]
  · simp [e, hk]

theorem foldl_chmod_file : ∀ (ps : List (Key × Entry)) (w : Ws) (k : Key) (oid : Str) (ex : Bool),
    w.lookup k = some (.file oid ex) →
    (ps.foldl chmodFile w).lookup k = some (.file oid (ex || ps.any fun p => decide (p.1 = k))) := by
  intro ps
  induction ps with
  | nil => intro w k oid ex hk; simpa using hk
  | cons p r ih =>
    intro w k oid ex hk
    simp only [List.foldl_cons, List.any_cons]
    rw [ih _ k oid _ (chmodFile_file w p k oid ex hk)]
    simp [Bool.or_assoc]

/-! ### what `compare` schedules, exactly -/

theorem diffEntry_none_some (o : Opts) (ho : o.metaOnly = false) (hh : o.hashOnly = false) (n : Entry) :
    diffEntry o none (some n) = .add := by
  simp [diffEntry, decide3, entryDiffOf, ho, hh]

theorem diffEntry_some_none (o : Opts) (ho : o.metaOnly = false) (hh : o.hashOnly = false) (e : Entry) :
    diffEntry o (some e) none = .delete := by
  simp [diffEntry, decide3, entryDiffOf, ho, hh]

theorem diffMeta_some_some (c : Cmp) (a b : Meta) : diffMeta c (some a) (some b) = .unchanged ∨ diffMeta c (some a) (some b) = .modify := by
  simp only [diffMeta]; split <;> simp

theorem decide3_some_some (m h : Typ) (t : Bool) (hm : m = .unchanged ∨ m = .modify) :
    decide3 false false .unchanged m h false t = .unchanged ∨ decide3 false false .unchanged m h false t = .modify := by
  rcases hm with rfl | rfl <;> cases h <;> cases t <;> decide

/-- two entries that both carry metadata are never reported as added or deleted -/
theorem diffEntry_some_some (o : Opts) (ho : o.metaOnly = false) (hh : o.hashOnly = false) (e n : Entry)
    (he : e.mt.isSome = true) (hn : n.mt.isSome = true) :
    diffEntry o (some e) (some n) = .unchanged ∨ diffEntry o (some e) (some n) = .modify := by
  cases hem : e.mt with
  | none => rw [hem] at he; cases he
  | some a =>
    cases hnm : n.mt with
    | none => rw [hnm] at hn; cases hn
    | some b =>
      simp only [diffEntry, ho, hh, entryDiffOf, Option.isSome_some, Option.bind_some, hem, hnm, Option.isNone_some]
      exact decide3_some_some _ _ _ (diffMeta_some_some o.cmp a b)

/-- the shape of a change the diff reports, given that every entry carries metadata -/
theorem change_shape (old new : Option Index)
    (hom : ∀ k e, entryOf old k = some e → e.mt.isSome = true) (hnm : ∀ k e, entryOf new k = some e → e.mt.isSome = true)
    (c : Change) (hc : c ∈ IndexDiff.diff { cmp := .dirExec } old new) :
    ∃ k, (c.typ = .add ∧ c.old = none ∧ ∃ n, c.new = some (k, n) ∧ entryOf old k = none ∧ entryOf new k = some n) ∨
         (c.typ = .delete ∧ c.new = none ∧ ∃ o, c.old = some (k, o) ∧ entryOf old k = some o ∧ entryOf new k = none) ∨
         (c.typ = .modify ∧ ∃ o n, c.old = some (k, o) ∧ c.new = some (k, n) ∧ entryOf old k = some o ∧ entryOf new k = some n) := by
  unfold IndexDiff.diff at hc
  simp only [Bool.false_and, Bool.false_eq_true, if_false] at hc
  obtain ⟨k, ht, ho, hn, hsome, hun⟩ := diffAt_sound _ old new _ _ c hc
  refine ⟨k, ?_⟩
  cases hoe : entryOf old k with
  | none =>
    cases hne : entryOf new k with
    | none => simp [hoe, hne] at hsome
    | some n =>
      left
      rw [hoe, hne] at ht
      rw [hoe] at ho; rw [hne] at hn
      exact ⟨by rw [ht]; exact diffEntry_none_some _ rfl rfl n, ho, n, hn, rfl, rfl⟩
  | some o =>
    cases hne : entryOf new k with
    | none =>
      right; left
      rw [hoe, hne] at ht
      rw [hoe] at ho; rw [hne] at hn
      exact ⟨by rw [ht]; exact diffEntry_some_none _ rfl rfl o, hn, o, ho, rfl, rfl⟩
    | some n =>
      right; right
      rw [hoe, hne] at ht
      rw [hoe] at ho; rw [hne] at hn
      rcases diffEntry_some_some { cmp := .dirExec } rfl rfl o n (hom k o hoe) (hnm k n hne) with h | h
      · rw [h] at ht
        have := hun ht
        simp at this
      · exact ⟨by rw [ht]; exact h, o, n, ho, hn, rfl, rfl⟩

def Shape (old new : Option Index) (c : Change) : Prop :=
  ∃ k, (c.typ = .add ∧ c.old = none ∧ ∃ n, c.new = some (k, n) ∧ entryOf old k = none ∧ entryOf new k = some n) ∨
       (c.typ = .delete ∧ c.new = none ∧ ∃ o, c.old = some (k, o) ∧ entryOf old k = some o ∧ entryOf new k = none) ∨
       (c.typ = .modify ∧ ∃ o n, c.old = some (k, o) ∧ c.new = some (k, n) ∧ entryOf old k = some o ∧ entryOf new k = some n)

/-- exactly what may be in the action lists (deletion enabled) -/
structure ActInv2 (old new : Option Index) (a : Actions) : Prop where
  fcreate : ∀ p ∈ a.filesCreate, isDirE p.2 = false ∧ entryOf new p.1 = some p.2 ∧
    ∀ o, entryOf old p.1 = some o → (o.hashInfo ≠ p.2.hashInfo ∨ isDirE o ≠ isDirE p.2)
  dcreate : ∀ p ∈ a.dirsCreate, isDirE p.2 = true ∧ entryOf new p.1 = some p.2
  fdelete : ∀ p ∈ a.filesDelete, isDirE p.2 = false ∧ entryOf old p.1 = some p.2 ∧
    ∀ n, entryOf new p.1 = some n → (p.2.hashInfo ≠ n.hashInfo ∨ isDirE p.2 ≠ isDirE n)
  ddelete : ∀ p ∈ a.dirsDelete, isDirE p.2 = true ∧ entryOf old p.1 = some p.2 ∧
    (entryOf new p.1 = none → newHasNode new p.1 = false) ∧ ∀ n, entryOf new p.1 = some n → isDirE n = false

theorem addCreate_inv2 (old new : Option Index) (a : Actions) (p : Key × Entry) (h : ActInv2 old new a)
    (hp : entryOf new p.1 = some p.2)
    (hd : isDirE p.2 = false → ∀ o, entryOf old p.1 = some o → (o.hashInfo ≠ p.2.hashInfo ∨ isDirE o ≠ isDirE p.2)) :
    ActInv2 old new (addCreate a p) := by
  unfold addCreate
  split
  · rename_i hdir
    refine ⟨h.fcreate, ?_, h.fdelete, h.ddelete⟩
    intro q hq
    rcases List.mem_append.mp hq with hq | hq
    · exact h.dcreate q hq
    · simp only [List.mem_singleton] at hq; subst hq; exact ⟨hdir, hp⟩
  · rename_i hdir
    have hdir' : isDirE p.2 = false := by simpa using hdir
    refine ⟨?_, h.dcreate, h.fdelete, h.ddelete⟩
    intro q hq
    rcases List.mem_append.mp hq with hq | hq
    · exact h.fcreate q hq
    · simp only [List.mem_singleton] at hq; subst hq; exact ⟨hdir', hp, hd hdir'⟩

theorem addDelete_inv2 (old new : Option Index) (a : Actions) (p : Key × Entry) (h : ActInv2 old new a)
    (hp : entryOf old p.1 = some p.2)
    (hf : isDirE p.2 = false → ∀ n, entryOf new p.1 = some n → (p.2.hashInfo ≠ n.hashInfo ∨ isDirE p.2 ≠ isDirE n))
    (hdd : isDirE p.2 = true → (entryOf new p.1 = none → newHasNode new p.1 = false) ∧ ∀ n, entryOf new p.1 = some n → isDirE n = false) :
    ActInv2 old new (addDelete a p) := by
  unfold addDelete
  split
  · rename_i hdir
    refine ⟨h.fcreate, h.dcreate, h.fdelete, ?_⟩
    intro q hq
    rcases List.mem_append.mp hq with hq | hq
    · exact h.ddelete q hq
    · simp only [List.mem_singleton] at hq; subst hq; exact ⟨hdir, hp, (hdd hdir).1, (hdd hdir).2⟩
  · rename_i hdir
    have hdir' : isDirE p.2 = false := by simpa using hdir
    refine ⟨h.fcreate, h.dcreate, ?_, h.ddelete⟩
    intro q hq
    rcases List.mem_append.mp hq with hq | hq
    · exact h.fdelete q hq
    · simp only [List.mem_singleton] at hq; subst hq; exact ⟨hdir', hp, hf hdir'⟩

theorem stepChange_inv2 (old new : Option Index) (a : Actions) (c : Change) (hs : Shape old new c)
    (h : ActInv2 old new a) : ActInv2 old new (stepChange true new a c) := by
  obtain ⟨k, hc | hc | hc⟩ := hs
  · obtain ⟨ht, ho, n, hn, hoe, hne⟩ := hc
    unfold stepChange
    simp only [ht, ho, hn]
    apply addCreate_inv2 old new a (k, n) h hne
    intro _ o hoo; rw [hoe] at hoo; cases hoo
  · obtain ⟨ht, hn, o, ho, hoe, hne⟩ := hc
    unfold stepChange
    simp only [ht, ho, hn, Bool.not_true, Bool.false_eq_true, if_false]
    split
    · exact h
    · rename_i hkeep
      apply addDelete_inv2 old new a (k, o) h hoe
      · intro _ n hnn; rw [hne] at hnn; cases hnn
      · intro hdir
        refine ⟨fun _ => ?_, fun n hnn => (by rw [hne] at hnn; cases hnn)⟩
        simp only [hdir, Bool.true_and] at hkeep
        simpa using hkeep
  · obtain ⟨ht, o, n, ho, hn, hoe, hne⟩ := hc
    unfold stepChange
    simp only [ht, ho, hn]
    split
    · rename_i hcond
      split
      · exact h
      · rename_i hboth
        apply addCreate_inv2 old new _ (k, n) _ hne
        · intro _ o' ho'
          rw [hoe] at ho'; injection ho' with ho'; subst ho'; exact hcond
        · apply addDelete_inv2 old new a (k, o) h hoe
          · intro _ n' hn'
            rw [hne] at hn'; injection hn' with hn'; subst hn'; exact hcond
          · intro hdir
            refine ⟨fun hnone => (by rw [hne] at hnone; cases hnone), fun n' hn' => ?_⟩
            rw [hne] at hn'; injection hn' with hn'; subst hn'
            simp only [hdir, Bool.true_and] at hboth
            simpa using hboth
    · split
      · exact ⟨h.fcreate, h.dcreate, h.fdelete, h.ddelete⟩
      · exact h

theorem compare_inv2 (old new : Option Index)
    (hom : ∀ k e, entryOf old k = some e → e.mt.isSome = true) (hnm : ∀ k e, entryOf new k = some e → e.mt.isSome = true) :
    ActInv2 old new (compare true old new) := by
  unfold compare
  have : ∀ (cs : List Change) (a : Actions), (∀ c ∈ cs, Shape old new c) → ActInv2 old new a →
      ActInv2 old new (cs.foldl (stepChange true new) a) := by
    intro cs
    induction cs with
    | nil => intro a _ h; exact h
    | cons c r ih =>
      intro a hs h
      exact ih _ (fun x hx => hs x (List.mem_cons_of_mem _ hx)) (stepChange_inv2 old new a c (hs c (by simp)) h)
  apply this
  · intro c hc; exact change_shape old new hom hnm c hc
  · exact ⟨by intro p hp; simp at hp, by intro p hp; simp at hp, by intro p hp; simp at hp, by intro p hp; simp at hp⟩

/-! ### the workspace index and the target index -/

theorem lookup_map_val {α β : Type} (f : α → β) (w : AList Key α) (k : Key) :
    AList.lookup (w.map fun e => (e.1, f e.2)) k = (AList.lookup w k).map f := by
  induction w with
  | nil => rfl
  | cons a r ih =>
    obtain ⟨k', v⟩ := a
    simp only [List.map_cons, AList.lookup_cons, ih]
    by_cases e : k' = k <;> simp [e]

theorem entryOf_lookup (idx : Index) (k : Key) : entryOf (some idx) k = (idx.lookup k).map fixMeta := by
  unfold entryOf optInfo infoAt
  simp only [Option.bind_some]
  cases hl : idx.lookup k with
  | none =>
    split
    · simp
    · simp
  | some e =>
    have := hasNode_of_lookup idx k [] e (by simpa using hl)
    simp [this]

theorem fixMeta_of_some (e : Entry) (h : e.mt.isSome = true) : fixMeta e = e := by
  unfold fixMeta
  cases hm : e.mt with
  | none => rw [hm] at h; cases h
  | some m => rfl

theorem entryOf_ws (ws : Ws) (k : Key) : entryOf (some (indexOfWs ws)) k = (ws.lookup k).map nodeEntry := by
  rw [entryOf_lookup]
  unfold indexOfWs
  rw [lookup_map_val nodeEntry ws k]
  cases ws.lookup k with
  | none => rfl
  | some n => cases n <;> rfl

/-- target indexes considered: every entry carries metadata, file entries carry the identifier of a cached object -/
structure TargetOK (cache : List Str) (T : Index) : Prop where
  wf : WFIdx T
  hasMeta : ∀ k e, T.lookup k = some e → e.mt.isSome = true
  cached : ∀ k e, T.lookup k = some e → isDirE e = false →
    ∃ h oid, e.hashInfo = some h ∧ h.value = some oid ∧ h.truthy = true ∧ cache.contains oid = true
  noRoot : T.lookup [] = none

theorem entryOf_target (cache : List Str) (T : Index) (ht : TargetOK cache T) (k : Key) :
    entryOf (some T) k = T.lookup k := by
  rw [entryOf_lookup]
  cases hl : T.lookup k with
  | none => rfl
  | some e => simp [fixMeta_of_some e (ht.hasMeta k e hl)]

/-- workspaces considered: a tree (every proper, non-empty prefix of a node is a directory), keys unique, no root node -/
structure WsOK (ws : Ws) : Prop where
  wf : AList.WF ws
  tree : ∀ k n, ws.lookup k = some n → ∀ q, q ≠ [] → q <+: k → q ≠ k → ws.lookup q = some .dir
  noRoot : ws.lookup [] = none
  oidNE : ∀ k oid ex, ws.lookup k = some (.file oid ex) → oid ≠ []

theorem isDirE_nodeEntry (n : Node) : isDirE (nodeEntry n) = (match n with | .dir => true | .file .. => false) := by
  cases n <;> rfl

theorem wfIdx_indexOfWs (ws : Ws) (hw : WsOK ws) : WFIdx (indexOfWs ws) := by
  intro p suffix e e' hs hl hp
  unfold indexOfWs at hl hp
  rw [lookup_map_val nodeEntry] at hl hp
  cases hwk : ws.lookup (p ++ suffix) with
  | none => rw [hwk] at hl; cases hl
  | some n =>
    cases hwp : ws.lookup p with
    | none => rw [hwp] at hp; cases hp
    | some n' =>
      rw [hwp] at hp; simp only [Option.map_some] at hp; injection hp with hp
      have hpne : p ≠ [] := by intro h; subst h; rw [hw.noRoot] at hwp; cases hwp
      have hne : p ≠ p ++ suffix := by
        intro h
        have := congrArg List.length h
        simp only [List.length_append] at this
        exact hs (List.eq_nil_of_length_eq_zero (by omega))
      have := hw.tree (p ++ suffix) n hwk p hpne (List.prefix_append _ _) hne
      rw [this] at hwp; injection hwp with hwp
      rw [← hp, ← hwp]; rfl

theorem oldMeta (ws : Ws) (k : Key) (e : Entry) (h : entryOf (some (indexOfWs ws)) k = some e) : e.mt.isSome = true := by
  rw [entryOf_ws] at h
  cases hl : ws.lookup k with
  | none => rw [hl] at h; cases h
  | some n => rw [hl] at h; simp only [Option.map_some] at h; injection h with h; rw [← h]; cases n <;> rfl

/-- an old entry that the target replaces by something of another kind or content is scheduled for deletion -/
theorem compare_schedules_replace (delete : Bool) (old new : Option Index) (hwo : WFOpt old) (hwn : WFOpt new)
    (k : Key) (o n : Entry) (ho : entryOf old k = some o) (hn : entryOf new k = some n)
    (hmod : diffEntry { cmp := .dirExec } (some o) (some n) = .modify)
    (hdiff : o.hashInfo ≠ n.hashInfo ∨ isDirE o ≠ isDirE n) (hboth : (isDirE o && isDirE n) = false) :
    if isDirE o then (k, o) ∈ (compare delete old new).dirsDelete else (k, o) ∈ (compare delete old new).filesDelete := by
  have hb : HasBelow old k ∨ HasBelow new k := Or.inl (hasBelow_of_entryOf old k o ho)
  let c : Change := { typ := .modify, old := some (k, o), new := some (k, n) }
  have hc : c ∈ hereOf { cmp := .dirExec } old new k := by
    unfold hereOf
    simp [ho, hn, hmod, c]
  have hcd := change_in_diff old new hwo hwn k hb c hc
  unfold compare
  have hstep : ∀ a, stepChange delete new a c = addCreate (addDelete a (k, o)) (k, n) := by
    intro a
    simp only [stepChange, c]
    rw [if_pos hdiff]
    simp [hboth]
  by_cases hd : isDirE o = true
  · simp only [hd, if_true]
    apply foldl_stepChange_mem delete new (·.dirsDelete) (fun a b h q hq => h.2.1 q hq) (k, o) c ?_ _ _ hcd
    intro a
    rw [hstep a]
    apply (addCreate_mono _ _).2.1
    simp [addDelete, hd]
  · have hd' : isDirE o = false := by simpa using hd
    simp only [hd', Bool.false_eq_true, if_false]
    apply foldl_stepChange_mem delete new (·.filesDelete) (fun a b h q hq => h.1 q hq) (k, o) c ?_ _ _ hcd
    intro a
    rw [hstep a]
    apply (addCreate_mono _ _).1
    simp [addDelete, hd']

/-! ### what `compare` schedules for the executable bit -/

/-- whatever is created and is executable is also scheduled for `chmod` -/
def ExecInv (a : Actions) : Prop := ∀ p ∈ a.filesCreate, isExecE p.2 = true → p ∈ a.filesChmod

theorem addCreate_execInv (a : Actions) (p : Key × Entry) (h : ExecInv a) : ExecInv (addCreate a p) := by
  unfold addCreate
  split
  · exact h
  · intro q hq hx
    simp only at hq ⊢
    rcases List.mem_append.mp hq with hq | hq
    · have := h q hq hx
      split
      · exact List.mem_append_left _ this
      · exact this
    · simp only [List.mem_singleton] at hq
      subst hq
      simp [hx]

theorem addDelete_execInv (a : Actions) (p : Key × Entry) (h : ExecInv a) : ExecInv (addDelete a p) := by
  unfold addDelete
  split <;> exact h

theorem stepChange_execInv (delete : Bool) (new : Option Index) (a : Actions) (c : Change) (h : ExecInv a) :
    ExecInv (stepChange delete new a c) := by
  unfold stepChange
  cases ht : c.typ <;> cases ho : c.old <;> cases hn : c.new <;> simp only [] <;>
    first
    | exact h
    | exact addCreate_execInv a _ h
    | (split
       · exact h
       · split
         · exact h
         · exact addDelete_execInv a _ h)
    | (split
       · split
         · exact h
         · exact addCreate_execInv _ _ (addDelete_execInv a _ h)
       · split
         · intro q hq hx; exact List.mem_append_left _ (h q hq hx)
         · exact h)

theorem compare_execInv (delete : Bool) (old new : Option Index) : ExecInv (compare delete old new) := by
  unfold compare
  have : ∀ (cs : List Change) (a : Actions), ExecInv a → ExecInv (cs.foldl (stepChange delete new) a) := by
    intro cs
    induction cs with
    | nil => intro a h; exact h
    | cons c r ih => intro a h; exact ih _ (stepChange_execInv delete new a c h)
  exact this _ _ (fun p hp => by simp at hp)

/-- a file whose content stays and whose executable bit changes is scheduled for `chmod` -/
theorem compare_schedules_chmod (delete : Bool) (old new : Option Index) (hwo : WFOpt old) (hwn : WFOpt new)
    (k : Key) (o n : Entry) (ho : entryOf old k = some o) (hn : entryOf new k = some n)
    (hmod : diffEntry { cmp := .dirExec } (some o) (some n) = .modify)
    (hsame : o.hashInfo = n.hashInfo) (hkind : isDirE o = isDirE n) (hfile : isDirE n = false)
    (hex : isExecE o ≠ isExecE n) :
    (k, n) ∈ (compare delete old new).filesChmod := by
  have hb : HasBelow old k ∨ HasBelow new k := Or.inl (hasBelow_of_entryOf old k o ho)
  let c : Change := { typ := .modify, old := some (k, o), new := some (k, n) }
  have hc : c ∈ hereOf { cmp := .dirExec } old new k := by
    unfold hereOf
    simp [ho, hn, hmod, c]
  have hcd := change_in_diff old new hwo hwn k hb c hc
  unfold compare
  apply foldl_stepChange_mem delete new (·.filesChmod) (fun a b h q hq => h.2.2.2.2 q hq) (k, n) c ?_ _ _ hcd
  intro a
  simp only [stepChange, c]
  have h1 : ¬ (o.hashInfo ≠ n.hashInfo ∨ isDirE o ≠ isDirE n) := by
    rintro (h | h)
    · exact h hsame
    · exact h hkind
  rw [if_neg h1]
  have h2 : isExecE o ≠ isExecE n ∧ (!isDirE n) = true := ⟨hex, by simp [hfile]⟩
  rw [if_pos h2]
  simp

theorem decide3_meta_modify (h : Typ) (t : Bool) : decide3 false false .unchanged .modify h false t = .modify := by
  cases h <;> cases t <;> decide

theorem decide3_hash_modify (m : Typ) (t : Bool) (hm : m = .unchanged ∨ m = .modify) :
    decide3 false false .unchanged m .modify false t = .modify := by
  rcases hm with rfl | rfl <;> cases t <;> decide

/-- entries of different kinds (file / directory) are reported as modified -/
theorem diffEntry_kind (o n : Entry) (ho : o.mt.isSome = true) (hn : n.mt.isSome = true) (hk : isDirE o ≠ isDirE n) :
    diffEntry { cmp := .dirExec } (some o) (some n) = .modify := by
  cases hom : o.mt with
  | none => rw [hom] at ho; cases ho
  | some a =>
    cases hnm : n.mt with
    | none => rw [hnm] at hn; cases hn
    | some b =>
      have hab : a.isdir ≠ b.isdir := by simpa [isDirE, hom, hnm] using hk
      have hM : diffMeta .dirExec (some a) (some b) = .modify := by
        simp only [diffMeta, cmpMeta]
        have : (a.isdir == b.isdir) = false := by simpa using hab
        simp [this]
      simp only [diffEntry, entryDiffOf, Option.isSome_some, Option.bind_some, hom, hnm, Option.isNone_some, hM]
      exact decide3_meta_modify _ _

/-- entries differing in the executable bit are reported as modified -/
theorem diffEntry_exec (o n : Entry) (ho : o.mt.isSome = true) (hn : n.mt.isSome = true) (hk : isExecE o ≠ isExecE n) :
    diffEntry { cmp := .dirExec } (some o) (some n) = .modify := by
  cases hom : o.mt with
  | none => rw [hom] at ho; cases ho
  | some a =>
    cases hnm : n.mt with
    | none => rw [hnm] at hn; cases hn
    | some b =>
      have hab : a.isexec ≠ b.isexec := by simpa [isExecE, hom, hnm] using hk
      have hM : diffMeta .dirExec (some a) (some b) = .modify := by
        simp only [diffMeta, cmpMeta]
        have : (a.isexec == b.isexec) = false := by simpa using hab
        simp [this]
      simp only [diffEntry, entryDiffOf, Option.isSome_some, Option.bind_some, hom, hnm, Option.isNone_some, hM]
      exact decide3_meta_modify _ _

/-- entries carrying different (truthy) hashes are reported as modified -/
theorem diffEntry_hash (o n : Entry) (ho : o.mt.isSome = true) (hn : n.mt.isSome = true) (ha hb : HashInfo)
    (hoh : o.hashInfo = some ha) (hnh : n.hashInfo = some hb) (hta : ha.truthy = true) (htb : hb.truthy = true)
    (hne : ha ≠ hb) : diffEntry { cmp := .dirExec } (some o) (some n) = .modify := by
  cases hom : o.mt with
  | none => rw [hom] at ho; cases ho
  | some a =>
    cases hnm : n.mt with
    | none => rw [hnm] at hn; cases hn
    | some b =>
      have hH : diffHashInfo (some ha) (some hb) = .modify := by
        simp [diffHashInfo, hiTruthy, hta, htb, hiEq, hne]
      simp only [diffEntry, entryDiffOf, Option.isSome_some, Option.bind_some, hom, hnm, Option.isNone_some, hoh, hnh, hH]
      exact decide3_hash_modify _ _ (diffMeta_some_some _ a b)

/-! ### target-side vocabulary -/

def TFile (T : Index) (k : Key) : Prop := ∃ e, T.lookup k = some e ∧ isDirE e = false

/-- `q` has to be a directory in any workspace that holds the target -/
def TAbove (T : Index) (q : Key) : Prop := ∃ k e, T.lookup k = some e ∧ q <+: k ∧ (q = k → isDirE e = true)

def fileOid (T : Index) (k : Key) : Option Str :=
  match T.lookup k with
  | some e => if isDirE e then none else e.hashInfo.bind (·.value)
  | none => none

theorem entryIsDir_eq (e : Entry) : entryIsDir e = isDirE e := by
  unfold entryIsDir isDirE; cases e.mt <;> rfl

theorem tAbove_not_file (cache : List Str) (T : Index) (ht : TargetOK cache T) (q : Key) (h : TAbove T q) : ¬ TFile T q := by
  rintro ⟨e', he', hf'⟩
  obtain ⟨k, e, hk, hpre, hdir⟩ := h
  by_cases hqk : q = k
  · subst hqk
    rw [hk] at he'; injection he' with he'; subst he'
    rw [hdir rfl] at hf'; cases hf'
  · obtain ⟨suffix, rfl⟩ := hpre
    have hs : suffix ≠ [] := by intro h; subst h; simp at hqk
    have := ht.wf q suffix e e' hs hk he'
    rw [fixMeta_of_some e' (ht.hasMeta q e' he'), entryIsDir_eq] at this
    rw [this] at hf'; cases hf'

theorem hasNode_mono (idx : Index) (d k : Key) (hdk : d <+: k) (h : hasNode idx k = true) : hasNode idx d = true := by
  unfold hasNode at *
  rw [List.any_eq_true] at *
  obtain ⟨e, he, hp⟩ := h
  exact ⟨e, he, List.isPrefixOf_iff_prefix.mpr (hdk.trans (List.isPrefixOf_iff_prefix.mp hp))⟩

theorem hasNode_of_entry (idx : Index) (q k : Key) (e : Entry) (hk : idx.lookup k = some e) (hq : q <+: k) :
    hasNode idx q = true := by
  obtain ⟨suffix, rfl⟩ := hq
  exact hasNode_of_lookup idx q suffix e hk

theorem hasNode_entry (idx : Index) (q : Key) (h : hasNode idx q = true) : ∃ k e, idx.lookup k = some e ∧ q <+: k := by
  unfold hasNode at h
  rw [List.any_eq_true] at h
  obtain ⟨e, he, hp⟩ := h
  have hs : (idx.lookup e.1).isSome = true := by
    rw [AList.lookup_isSome_iff_mem_keys]; exact List.mem_map.mpr ⟨e, he, rfl⟩
  cases hl : idx.lookup e.1 with
  | none => rw [hl] at hs; cases hs
  | some v => exact ⟨e.1, v, hl, List.isPrefixOf_iff_prefix.mp hp⟩

/-! ### what is scheduled, in terms of the workspace and the target -/

section classify
variable (cache : List Str) (ws : Ws) (T : Index) (hw : WsOK ws) (ht : TargetOK cache T)

/-- the actions `compare` schedules for this workspace against this target (deletion enabled) -/
def acts : Actions := compare true (some (indexOfWs ws)) (some T)

include hw ht

theorem acts_inv2 : ActInv2 (some (indexOfWs ws)) (some T) (acts ws T) :=
  compare_inv2 _ _ (fun k e h => oldMeta ws k e h)
    (fun k e h => by rw [entryOf_target cache T ht] at h; exact ht.hasMeta k e h)

omit hw ht in
theorem truthy_nodeEntry (oid : Str) (ex : Bool) (h : oid ≠ []) :
    ({ name := some kMd5, value := some oid } : HashInfo).truthy = true := by
  simp only [HashInfo.truthy]
  cases oid with
  | nil => exact absurd rfl h
  | cons a r => rfl

/-- a workspace file that the target does not hold with the same hash is scheduled for deletion -/
theorem sched_file_delete (k : Key) (oid : Str) (ex : Bool) (hk : ws.lookup k = some (.file oid ex))
    (hno : ¬ ∃ e, T.lookup k = some e ∧ isDirE e = false ∧ e.hashInfo = (nodeEntry (.file oid ex)).hashInfo) :
    (k, nodeEntry (.file oid ex)) ∈ (acts ws T).filesDelete := by
  unfold acts
  have hwo : WFOpt (some (indexOfWs ws)) := wfIdx_indexOfWs ws hw
  have hwn : WFOpt (some T) := ht.wf
  have hoe : entryOf (some (indexOfWs ws)) k = some (nodeEntry (.file oid ex)) := by rw [entryOf_ws, hk]; rfl
  cases hT : T.lookup k with
  | none =>
    have := compare_schedules_delete (some (indexOfWs ws)) (some T) hwo hwn k _ hoe
      (by rw [entryOf_target cache T ht, hT]) (by simp [nodeEntry, isDirE])
    simpa [nodeEntry, isDirE] using this
  | some e =>
    have hne : entryOf (some T) k = some e := by rw [entryOf_target cache T ht, hT]
    have hm := ht.hasMeta k e hT
    by_cases hd : isDirE e = true
    · have hkind : isDirE (nodeEntry (.file oid ex)) ≠ isDirE e := by rw [hd]; simp [nodeEntry, isDirE]
      have := compare_schedules_replace true _ _ hwo hwn k _ e hoe hne
        (diffEntry_kind _ e rfl hm hkind) (Or.inr hkind) (by simp [nodeEntry, isDirE])
      simpa [nodeEntry, isDirE] using this
    · have hd' : isDirE e = false := by simpa using hd
      obtain ⟨h, o2, hh, hv, htr, _⟩ := ht.cached k e hT hd'
      have hneq : (nodeEntry (.file oid ex)).hashInfo ≠ e.hashInfo := by
        intro heq; exact hno ⟨e, hT, hd', heq.symm⟩
      have hne' : ({ name := some kMd5, value := some oid } : HashInfo) ≠ h := by
        intro heq; apply hneq; rw [hh, ← heq]; rfl
      have := compare_schedules_replace true _ _ hwo hwn k _ e hoe hne
        (diffEntry_hash _ e rfl hm _ h rfl hh (truthy_nodeEntry oid ex (hw.oidNE k oid ex hk)) htr hne')
        (Or.inl hneq) (by simp [nodeEntry, isDirE])
      simpa [nodeEntry, isDirE] using this

/-- a workspace directory where the target has nothing at all, or a file, is scheduled for deletion -/
theorem sched_dir_delete (k : Key) (hk : ws.lookup k = some .dir)
    (hT : (T.lookup k = none ∧ hasNode T k = false) ∨ TFile T k) :
    (k, nodeEntry .dir) ∈ (acts ws T).dirsDelete := by
  unfold acts
  have hwo : WFOpt (some (indexOfWs ws)) := wfIdx_indexOfWs ws hw
  have hwn : WFOpt (some T) := ht.wf
  have hoe : entryOf (some (indexOfWs ws)) k = some (nodeEntry .dir) := by rw [entryOf_ws, hk]; rfl
  rcases hT with ⟨hnone, hnn⟩ | ⟨e, he, hf⟩
  · have := compare_schedules_delete (some (indexOfWs ws)) (some T) hwo hwn k _ hoe
      (by rw [entryOf_target cache T ht, hnone]) (by simp [newHasNode, hnn])
    simpa [nodeEntry, isDirE] using this
  · have hne : entryOf (some T) k = some e := by rw [entryOf_target cache T ht, he]
    have hkind : isDirE (nodeEntry .dir) ≠ isDirE e := by rw [hf]; simp [nodeEntry, isDirE]
    have := compare_schedules_replace true _ _ hwo hwn k _ e hoe hne
      (diffEntry_kind _ e rfl (ht.hasMeta k e he) hkind) (Or.inr hkind) (by simp [hf])
    simpa [nodeEntry, isDirE] using this

/-- a target file that the workspace does not hold with the same hash is scheduled for creation -/
theorem sched_file_create (k : Key) (e : Entry) (he : T.lookup k = some e) (hf : isDirE e = false)
    (hno : ¬ ∃ oid ex, ws.lookup k = some (.file oid ex) ∧ (nodeEntry (.file oid ex)).hashInfo = e.hashInfo) :
    (k, e) ∈ (acts ws T).filesCreate := by
  unfold acts
  have hwo : WFOpt (some (indexOfWs ws)) := wfIdx_indexOfWs ws hw
  have hwn : WFOpt (some T) := ht.wf
  have hne : entryOf (some T) k = some e := by rw [entryOf_target cache T ht, he]
  have hm := ht.hasMeta k e he
  apply compare_schedules_create true _ _ hwo hwn k e hne hf
  cases hk : ws.lookup k with
  | none =>
    left
    have : entryOf (some (indexOfWs ws)) k = none := by rw [entryOf_ws, hk]; rfl
    rw [this]; exact diffEntry_none_some _ rfl rfl e
  | some n =>
    right
    have hoe : entryOf (some (indexOfWs ws)) k = some (nodeEntry n) := by rw [entryOf_ws, hk]; rfl
    rw [hoe]
    cases n with
    | dir =>
      have hkind : isDirE (nodeEntry .dir) ≠ isDirE e := by rw [hf]; simp [nodeEntry, isDirE]
      exact ⟨diffEntry_kind _ e rfl hm hkind, _, rfl, Or.inr hkind⟩
    | file oid ex =>
      obtain ⟨h, o2, hh, hv, htr, _⟩ := ht.cached k e he hf
      have hneq : (nodeEntry (.file oid ex)).hashInfo ≠ e.hashInfo := fun heq => hno ⟨oid, ex, hk, heq⟩
      have hne' : ({ name := some kMd5, value := some oid } : HashInfo) ≠ h := by
        intro heq; apply hneq; rw [hh, ← heq]; rfl
      exact ⟨diffEntry_hash _ e rfl hm _ h rfl hh (truthy_nodeEntry oid ex (hw.oidNE k oid ex hk)) htr hne',
        _, rfl, Or.inl hneq⟩

theorem fd_ws (p : Key × Entry) (hp : p ∈ (acts ws T).filesDelete) :
    ∃ oid ex, ws.lookup p.1 = some (.file oid ex) ∧ p.2 = nodeEntry (.file oid ex) := by
  obtain ⟨hd, hoe, _⟩ := (acts_inv2 cache ws T hw ht).fdelete p hp
  rw [entryOf_ws] at hoe
  cases hl : ws.lookup p.1 with
  | none => rw [hl] at hoe; cases hoe
  | some n =>
    rw [hl] at hoe; simp only [Option.map_some] at hoe; injection hoe with hoe
    cases n with
    | dir => rw [← hoe] at hd; simp [nodeEntry, isDirE] at hd
    | file oid ex => exact ⟨oid, ex, rfl, hoe.symm⟩

theorem dd_ws (p : Key × Entry) (hp : p ∈ (acts ws T).dirsDelete) :
    ws.lookup p.1 = some .dir ∧ p.2 = nodeEntry .dir := by
  obtain ⟨hd, hoe, _⟩ := (acts_inv2 cache ws T hw ht).ddelete p hp
  rw [entryOf_ws] at hoe
  cases hl : ws.lookup p.1 with
  | none => rw [hl] at hoe; cases hoe
  | some n =>
    rw [hl] at hoe; simp only [Option.map_some] at hoe; injection hoe with hoe
    cases n with
    | dir => exact ⟨rfl, hoe.symm⟩
    | file oid ex => rw [← hoe] at hd; simp [nodeEntry, isDirE] at hd

/-- nothing of the target sits strictly below a directory scheduled for deletion -/
theorem dd_nothing_below (p : Key × Entry) (hp : p ∈ (acts ws T).dirsDelete) (k : Key) (hpk : p.1 <+: k) (hne : k ≠ p.1) :
    T.lookup k = none ∧ hasNode T k = false := by
  obtain ⟨_, _, hnone, hfile⟩ := (acts_inv2 cache ws T hw ht).ddelete p hp
  rw [entryOf_target cache T ht] at hnone hfile
  have hno : ∀ k' e', T.lookup k' = some e' → p.1 <+: k' → k' ≠ p.1 → False := by
    intro k' e' hk' hpre hne'
    cases hpl : T.lookup p.1 with
    | none =>
      have := hnone hpl
      simp only [newHasNode] at this
      rw [hasNode_of_entry T p.1 k' e' hk' hpre] at this; cases this
    | some n =>
      have hfn := hfile n hpl
      obtain ⟨suffix, rfl⟩ := hpre
      have hs : suffix ≠ [] := by intro h; subst h; simp at hne'
      have := ht.wf p.1 suffix e' n hs hk' hpl
      rw [fixMeta_of_some n (ht.hasMeta p.1 n hpl), entryIsDir_eq, hfn] at this; cases this
  constructor
  · cases hl : T.lookup k with
    | none => rfl
    | some e => exact absurd (hno k e hl hpk hne) id
  · cases hh : hasNode T k with
    | false => rfl
    | true =>
      obtain ⟨k', e', hk', hpre⟩ := hasNode_entry T k hh
      have hne' : k' ≠ p.1 := by
        intro e
        subst e
        exact hne (List.IsPrefix.eq_of_length_le hpre (hpk.length_le))
      exact absurd (hno k' e' hk' (hpk.trans hpre) hne') id

/-! ### after the two deletion phases -/

def fdKeys : List Key := (acts ws T).filesDelete.map fun (x : Key × Entry) => x.1
def ddKeys : List Key := (acts ws T).dirsDelete.map fun (x : Key × Entry) => x.1

/-- the workspace after phase 1 (files) and phase 2 (directories, deepest first) -/
def ws1 : Ws := (fdKeys ws T).foldl removePath ws
def ws2 : Ws := (deepestFirst (ddKeys ws T)).foldl rmdir (ws1 ws T)

omit hw ht in
theorem foldl_removePath_sublist (ps : List Key) : ∀ (w : Ws), (ps.foldl removePath w).Sublist w := by
  induction ps with
  | nil => intro w; exact List.Sublist.refl w
  | cons a r ih => intro w; exact (ih _).trans List.filter_sublist

omit ht in
theorem ws1_wf : AList.WF (ws1 ws T) := by
  unfold AList.WF AList.keys
  exact ((foldl_removePath_sublist _ ws).map _).nodup hw.wf

omit hw ht in
theorem ws1_lookup (k : Key) :
    (ws1 ws T).lookup k = if ∃ p ∈ fdKeys ws T, p <+: k then none else ws.lookup k :=
  foldl_removePath_lookup _ ws k

omit ht in
theorem ws2_sub (k : Key) (n : Node) (h : (ws2 ws T).lookup k = some n) : ws.lookup k = some n := by
  have hm := AList.mem_of_lookup _ k n h
  have hm1 := foldl_rmdir_sub _ (ws1 ws T) (k, n) hm
  have h1 := AList.lookup_of_mem _ (ws1_wf ws T hw) k n hm1
  rw [ws1_lookup] at h1
  split at h1
  · cases h1
  · exact h1

omit hw ht in
theorem foldl_rmdir_lookup_not_mem (l : List Key) : ∀ (w : Ws) (k : Key), k ∉ l → (l.foldl rmdir w).lookup k = w.lookup k := by
  induction l with
  | nil => intro w k _; rfl
  | cons a r ih =>
    intro w k hk
    simp only [List.foldl_cons]
    rw [ih _ k (fun h => hk (List.mem_cons_of_mem _ h))]
    exact rmdir_lookup_ne w a k (fun e => hk (by simp [e]))

/-- a file scheduled for deletion is gone after phase 1 (and stays gone) -/
theorem fd_gone (p : Key × Entry) (hp : p ∈ (acts ws T).filesDelete) : (ws2 ws T).lookup p.1 = none := by
  cases h : (ws2 ws T).lookup p.1 with
  | none => rfl
  | some n =>
    have hm := AList.mem_of_lookup _ p.1 n h
    have hm1 := foldl_rmdir_sub _ (ws1 ws T) (p.1, n) hm
    have h1 := AList.lookup_of_mem _ (ws1_wf ws T hw) p.1 n hm1
    rw [ws1_lookup] at h1
    have : ∃ q ∈ fdKeys ws T, q <+: p.1 := ⟨p.1, List.mem_map.mpr ⟨p, hp, rfl⟩, List.prefix_refl _⟩
    simp [this] at h1

/-- every directory scheduled for deletion is no longer a directory after phase 2 -/
theorem dd_gone (p : Key × Entry) (hp : p ∈ (acts ws T).dirsDelete) : (ws2 ws T).lookup p.1 ≠ some .dir := by
  apply rmdir_all (ddKeys ws T) (ws1 ws T) (ws1_wf ws T hw) ?_ p.1 (List.mem_map.mpr ⟨p, hp, rfl⟩)
  intro d hd e he hpp
  obtain ⟨pd, hpd, rfl⟩ := List.mem_map.mp hd
  simp only [properPrefix, Bool.and_eq_true, decide_eq_true_eq] at hpp
  have hpre : pd.1 <+: e.1 := List.isPrefixOf_iff_prefix.mp hpp.1
  have hne : e.1 ≠ pd.1 := by intro h; rw [h] at hpp; exact absurd hpp.2 (Nat.lt_irrefl _)
  obtain ⟨hTn, hTh⟩ := dd_nothing_below cache ws T hw ht pd hpd e.1 hpre hne
  have he1 : (ws1 ws T).lookup e.1 = some e.2 := AList.lookup_of_mem _ (ws1_wf ws T hw) e.1 e.2 he
  have hews : ws.lookup e.1 = some e.2 := by
    rw [ws1_lookup] at he1
    split at he1
    · cases he1
    · exact he1
  cases hn : e.2 with
  | dir =>
    refine ⟨?_, rfl⟩
    rw [hn] at hews
    exact List.mem_map.mpr ⟨_, sched_dir_delete cache ws T hw ht e.1 hews (Or.inl ⟨hTn, hTh⟩), rfl⟩
  | file oid ex =>
    exfalso
    rw [hn] at hews
    have hfd := sched_file_delete cache ws T hw ht e.1 oid ex hews (by rintro ⟨e', he', _⟩; rw [hTn] at he'; cases he')
    have : ∃ q ∈ fdKeys ws T, q <+: e.1 := ⟨e.1, List.mem_map.mpr ⟨_, hfd, rfl⟩, List.prefix_refl _⟩
    rw [ws1_lookup] at he1
    simp [this] at he1

/-- what holds of the workspace from the end of the deletion phases on -/
structure Mid (w : Ws) : Prop where
  noFileAbove : ∀ q, q ≠ [] → TAbove T q → notFile w q
  noDirAtFile : ∀ k, TFile T k → w.lookup k ≠ some .dir
  filesInTarget : ∀ k, oidAt w k ≠ none → TFile T k
  unscheduledRight : ∀ k, TFile T k → (∀ p ∈ (acts ws T).filesCreate, p.1 ≠ k) → oidAt w k = fileOid T k

omit hw ht in
theorem oidAt_some (w : Ws) (k : Key) (h : oidAt w k ≠ none) : ∃ oid ex, w.lookup k = some (.file oid ex) := by
  unfold oidAt at h
  cases hl : w.lookup k with
  | none => simp [hl] at h
  | some n =>
    cases n with
    | dir => simp [hl] at h
    | file oid ex => exact ⟨oid, ex, rfl⟩

theorem mid_ws2 : Mid ws T (ws2 ws T) := by
  refine ⟨?_, ?_, ?_, ?_⟩
  · -- no file where the target needs a directory
    intro q hq hab oid ex hl
    have hws := ws2_sub ws T hw q _ hl
    have hnf := tAbove_not_file cache T ht q hab
    have hfd := sched_file_delete cache ws T hw ht q oid ex hws
      (by rintro ⟨e, he, hf, _⟩; exact hnf ⟨e, he, hf⟩)
    rw [fd_gone cache ws T hw ht _ hfd] at hl
    cases hl
  · -- no directory where the target has a file
    intro k hk hl
    have hws := ws2_sub ws T hw k _ hl
    have hdd := sched_dir_delete cache ws T hw ht k hws (Or.inr hk)
    exact dd_gone cache ws T hw ht _ hdd hl
  · -- every remaining file is a file of the target
    intro k hk
    obtain ⟨oid, ex, hl⟩ := oidAt_some _ k hk
    have hws := ws2_sub ws T hw k _ hl
    apply Classical.byContradiction
    intro hnf
    have hfd := sched_file_delete cache ws T hw ht k oid ex hws
      (by rintro ⟨e, he, hf, _⟩; exact hnf ⟨e, he, hf⟩)
    rw [fd_gone cache ws T hw ht _ hfd] at hl
    cases hl
  · -- a target file that is not scheduled for creation is there already, untouched
    intro k ⟨e, he, hf⟩ hns
    have hex : ∃ oid ex, ws.lookup k = some (.file oid ex) ∧ (nodeEntry (.file oid ex)).hashInfo = e.hashInfo := by
      apply Classical.byContradiction
      intro hno
      exact hns _ (sched_file_create cache ws T hw ht k e he hf hno) rfl
    obtain ⟨oid, ex, hwk, hhash⟩ := hex
    -- phase 1 leaves it alone
    have h1 : (ws1 ws T).lookup k = ws.lookup k := by
      rw [ws1_lookup]
      have : ¬ ∃ p ∈ fdKeys ws T, p <+: k := by
        rintro ⟨p, hp, hpk⟩
        obtain ⟨pe, hpe, rfl⟩ := List.mem_map.mp hp
        obtain ⟨o2, e2, hl2, hpe2⟩ := fd_ws cache ws T hw ht pe hpe
        by_cases hpk' : pe.1 = k
        · obtain ⟨_, _, hdiff⟩ := (acts_inv2 cache ws T hw ht).fdelete pe hpe
          have := hdiff e (by rw [entryOf_target cache T ht, hpk', he])
          rw [hpk', hwk] at hl2
          injection hl2 with hl2; injection hl2 with ho he'
          subst ho; subst he'
          rw [hpe2] at this
          rcases this with h | h
          · exact h hhash
          · rw [hf] at h; simp [nodeEntry, isDirE] at h
        · have hpne : pe.1 ≠ [] := by intro h; rw [h, hw.noRoot] at hl2; cases hl2
          have := hw.tree k _ hwk pe.1 hpne hpk hpk'
          rw [this] at hl2; cases hl2
      simp [this]
    -- phase 2 too: only directories are removed
    have h2 : (ws2 ws T).lookup k = (ws1 ws T).lookup k := by
      apply foldl_rmdir_lookup_not_mem
      intro hmem
      have hmem' : k ∈ ddKeys ws T := (List.mergeSort_perm _ _).mem_iff.mp hmem
      obtain ⟨pd, hpd, rfl⟩ := List.mem_map.mp hmem'
      have := (dd_ws cache ws T hw ht pd hpd).1
      rw [hwk] at this; cases this
    unfold oidAt fileOid
    rw [h2, h1, hwk, he]
    simp only [hf, Bool.false_eq_true, if_false]
    rw [← hhash]; rfl

/-! ### the creation phases preserve the invariant -/

omit hw in
theorem mid_makedirs (w : Ws) (hm : Mid ws T w) (d : Key) (hab : ∀ q, q ≠ [] → q <+: d → TAbove T q) :
    ∃ w', makedirs w d = some w' ∧ Mid ws T w' ∧ ∀ k, oidAt w' k = oidAt w k := by
  obtain ⟨w', h1, h2⟩ := makedirs_spec w d (fun q hq hpre => hm.noFileAbove q hq (hab q hq hpre))
  have hoid : ∀ k, oidAt w' k = oidAt w k := by
    intro k
    unfold oidAt
    rw [h2 k]
    cases hl : w.lookup k with
    | some n => rfl
    | none => by_cases hc : (k ≠ [] ∧ k <+: d) <;> simp [hc]
  refine ⟨w', h1, ⟨?_, ?_, ?_, ?_⟩, hoid⟩
  · intro q hq habq oid ex hl
    rw [h2 q] at hl
    cases hwq : w.lookup q with
    | some n => rw [hwq] at hl; simp only at hl; exact hm.noFileAbove q hq habq oid ex (by rw [hwq, hl])
    | none => rw [hwq] at hl; simp only at hl; split at hl <;> cases hl
  · intro k hk hl
    rw [h2 k] at hl
    cases hwk : w.lookup k with
    | some n => rw [hwk] at hl; simp only at hl; exact hm.noDirAtFile k hk (by rw [hwk, hl])
    | none =>
      rw [hwk] at hl; simp only at hl
      split at hl
      · rename_i hc
        exact tAbove_not_file cache T ht k (hab k hc.1 hc.2) hk
      · cases hl
  · intro k hk; rw [hoid k] at hk; exact hm.filesInTarget k hk
  · intro k hk hns; rw [hoid k]; exact hm.unscheduledRight k hk hns

omit hw in
theorem mid_foldl_makedirs : ∀ (ds : List Key) (w : Ws), Mid ws T w →
    (∀ d ∈ ds, ∀ q, q ≠ [] → q <+: d → TAbove T q) →
    ∃ w', ds.foldlM makedirs w = some w' ∧ Mid ws T w' ∧ ∀ k, oidAt w' k = oidAt w k := by
  intro ds
  induction ds with
  | nil => intro w hm _; exact ⟨w, rfl, hm, fun _ => rfl⟩
  | cons d r ih =>
    intro w hm hab
    obtain ⟨w1, h1, hm1, ho1⟩ := mid_makedirs cache ws T ht w hm d (hab d (by simp))
    obtain ⟨w', h2, hm2, ho2⟩ := ih w1 hm1 (fun d' hd' => hab d' (List.mem_cons_of_mem _ hd'))
    exact ⟨w', by simp [List.foldlM_cons, h1, h2], hm2, fun k => (ho2 k).trans (ho1 k)⟩

theorem fc_target (p : Key × Entry) (hp : p ∈ (acts ws T).filesCreate) : T.lookup p.1 = some p.2 ∧ isDirE p.2 = false := by
  obtain ⟨hd, hne, _⟩ := (acts_inv2 cache ws T hw ht).fcreate p hp
  rw [entryOf_target cache T ht] at hne
  exact ⟨hne, hd⟩

theorem mid_createFile (w : Ws) (hm : Mid ws T w) (p : Key × Entry) (hp : p ∈ (acts ws T).filesCreate) (errs : List Key) :
    ∃ w', createFile cache (w, errs) p = (w', errs) ∧ Mid ws T w' ∧ oidAt w' p.1 = fileOid T p.1 ∧
      ∀ k, k ≠ p.1 → oidAt w' k = oidAt w k := by
  obtain ⟨hT, hf⟩ := fc_target cache ws T hw ht p hp
  obtain ⟨h, oid, hh, hv, htr, hc⟩ := ht.cached p.1 p.2 hT hf
  have hfile : TFile T p.1 := ⟨p.2, hT, hf⟩
  have hab : ∀ q, q ≠ [] → q <+: p.1.dropLast → TAbove T q := by
    intro q hq hpre
    refine ⟨p.1, p.2, hT, hpre.trans (List.dropLast_prefix _), fun e => ?_⟩
    exact absurd e.symm (not_prefix_dropLast p.1 q hpre hq)
  obtain ⟨w', h1, h2⟩ := createFile_ok cache w errs p.1 p.2 h oid hh hv htr hc
    (fun q hq hpre => hm.noFileAbove q hq (hab q hq hpre)) (hm.noDirAtFile p.1 hfile)
  have hother : ∀ k, k ≠ p.1 → oidAt w' k = oidAt w k := by
    intro k hk
    unfold oidAt
    rw [h2 k]
    have : ¬ p.1 = k := fun e => hk e.symm
    simp only [this, if_false]
    cases hl : w.lookup k with
    | some n => rfl
    | none => by_cases hc : (k ≠ [] ∧ k <+: p.1.dropLast) <;> simp [hc]
  have hself : oidAt w' p.1 = fileOid T p.1 := by
    unfold oidAt fileOid
    rw [h2 p.1, hT]
    simp [hf, hh, hv]
  refine ⟨w', h1, ⟨?_, ?_, ?_, ?_⟩, hself, hother⟩
  · intro q hq habq o2 e2 hl
    rw [h2 q] at hl
    by_cases e : p.1 = q
    · subst e; exact tAbove_not_file cache T ht p.1 habq hfile
    · simp only [e, if_false] at hl
      cases hwq : w.lookup q with
      | some n => rw [hwq] at hl; simp only at hl; exact hm.noFileAbove q hq habq o2 e2 (by rw [hwq, hl])
      | none => rw [hwq] at hl; simp only at hl; split at hl <;> cases hl
  · intro k hk hl
    rw [h2 k] at hl
    by_cases e : p.1 = k
    · simp [e] at hl
    · simp only [e, if_false] at hl
      cases hwk : w.lookup k with
      | some n => rw [hwk] at hl; simp only at hl; exact hm.noDirAtFile k hk (by rw [hwk, hl])
      | none =>
        rw [hwk] at hl; simp only at hl
        split at hl
        · rename_i hc'
          exact tAbove_not_file cache T ht k (hab k hc'.1 hc'.2) hk
        · cases hl
  · intro k hk
    by_cases e : k = p.1
    · rw [e]; exact hfile
    · rw [hother k e] at hk; exact hm.filesInTarget k hk
  · intro k hk hns
    have : k ≠ p.1 := fun e => hns p hp e.symm
    rw [hother k this]; exact hm.unscheduledRight k hk hns

theorem mid_foldl_createFile : ∀ (ps : List (Key × Entry)) (w : Ws), Mid ws T w →
    (∀ p ∈ ps, p ∈ (acts ws T).filesCreate) → (errs : List Key) →
    ∃ w', ps.foldl (createFile cache) (w, errs) = (w', errs) ∧ Mid ws T w' ∧
      (∀ p ∈ ps, oidAt w' p.1 = fileOid T p.1) ∧ ∀ k, (∀ p ∈ ps, p.1 ≠ k) → oidAt w' k = oidAt w k := by
  intro ps
  induction ps with
  | nil => intro w hm _ errs; exact ⟨w, rfl, hm, by simp, fun _ _ => rfl⟩
  | cons p r ih =>
    intro w hm hsub errs
    obtain ⟨w1, h1, hm1, hs1, ho1⟩ := mid_createFile cache ws T hw ht w hm p (hsub p (by simp)) errs
    obtain ⟨w', h2, hm2, hs2, ho2⟩ := ih w1 hm1 (fun q hq => hsub q (List.mem_cons_of_mem _ hq)) errs
    refine ⟨w', by simp [List.foldl_cons, h1, h2], hm2, ?_, ?_⟩
    · intro q hq
      rcases List.mem_cons.mp hq with rfl | hq
      · by_cases hin : ∃ x ∈ r, x.1 = q.1
        · obtain ⟨x, hx, hxq⟩ := hin
          rw [← hxq]; exact hs2 x hx
        · rw [ho2 q.1 (fun x hx hxq => hin ⟨x, hx, hxq⟩)]; exact hs1
      · exact hs2 q hq
    · intro k hk
      rw [ho2 k (fun x hx => hk x (List.mem_cons_of_mem _ hx))]
      exact ho1 k (fun e => hk p (by simp) e.symm)

theorem dc_target (p : Key × Entry) (hp : p ∈ (acts ws T).dirsCreate) : T.lookup p.1 = some p.2 ∧ isDirE p.2 = true := by
  obtain ⟨hd, hne⟩ := (acts_inv2 cache ws T hw ht).dcreate p hp
  rw [entryOf_target cache T ht] at hne
  exact ⟨hne, hd⟩

omit hw ht in
theorem fileOid_none_of_not_file (k : Key) (h : ¬ TFile T k) : fileOid T k = none := by
  unfold fileOid
  cases hl : T.lookup k with
  | none => rfl
  | some e =>
    cases hd : isDirE e with
    | true => simp [hd]
    | false => exact absurd ⟨e, hl, hd⟩ h

/-- **C09: index checkout converges.** For every workspace (a tree of files and directories, in any
    state) and every well-formed target index whose file objects are cached, applying what `compare`
    schedules (deletion enabled) succeeds without reporting an error, and afterwards the workspace
    holds *exactly the target's files with the target's contents*: a file is at a key if and only if
    the target has a file entry there, and its object is the one the entry names. -/
theorem apply_compare_converges :
    ∃ ws', apply cache (compare true (some (indexOfWs ws)) (some T)) ws = .ok ws' [] ∧
      ∀ k, oidAt ws' k = fileOid T k := by
  have hm2 := mid_ws2 cache ws T hw ht
  -- phase 3
  obtain ⟨w3, h3, hm3, _⟩ := mid_foldl_makedirs cache ws T ht ((acts ws T).dirsCreate.map (·.1)) (ws2 ws T) hm2
    (by
      intro d hd q hq hpre
      obtain ⟨p, hp, rfl⟩ := List.mem_map.mp hd
      obtain ⟨hT, hdir⟩ := dc_target cache ws T hw ht p hp
      exact ⟨p.1, p.2, hT, hpre, fun _ => hdir⟩)
  -- phase 4
  obtain ⟨w4, h4, hm4, hdone, _⟩ := mid_foldl_createFile cache ws T hw ht (acts ws T).filesCreate w3 hm3 (fun p hp => hp) []
  refine ⟨(acts ws T).filesChmod.foldl chmodFile w4, ?_, ?_⟩
  · unfold apply
    have e1 : (compare true (some (indexOfWs ws)) (some T)).filesDelete.foldl (fun w p => removePath w p.1) ws = ws1 ws T := by
      unfold ws1 fdKeys acts
      rw [List.foldl_map]
    simp only [e1]
    have e2 : (deepestFirst ((compare true (some (indexOfWs ws)) (some T)).dirsDelete.map (·.1))).foldl rmdir (ws1 ws T) = ws2 ws T := rfl
    rw [e2]
    have e3 : ((compare true (some (indexOfWs ws)) (some T)).dirsCreate.map (·.1)).foldlM makedirs (ws2 ws T) = some w3 := h3
    rw [e3]
    simp only
    have e4 : (compare true (some (indexOfWs ws)) (some T)).filesCreate.foldl (createFile cache) (w3, []) = (w4, []) := h4
    rw [e4]
    rfl
  · intro k
    rw [foldl_chmod_oidAt]
    by_cases hk : TFile T k
    · by_cases hin : ∃ p ∈ (acts ws T).filesCreate, p.1 = k
      · obtain ⟨p, hp, rfl⟩ := hin
        exact hdone p hp
      · exact hm4.unscheduledRight k hk (fun p hp e => hin ⟨p, hp, e⟩)
    · rw [fileOid_none_of_not_file T k hk]
      cases ho : oidAt w4 k with
      | none => rfl
      | some o => exact absurd (hm4.filesInTarget k (by rw [ho]; simp)) hk

/-! ### the executable bit -/

/-- a target file that is not scheduled for creation sits in the workspace with the target's content and survives
    both deletion phases untouched -/
theorem unscheduled_kept_ws2 (k : Key) (e : Entry) (he : T.lookup k = some e) (hf : isDirE e = false)
    (hns : ∀ p ∈ (acts ws T).filesCreate, p.1 ≠ k) :
    ∃ oid ex, ws.lookup k = some (.file oid ex) ∧ (nodeEntry (.file oid ex)).hashInfo = e.hashInfo ∧
      (ws2 ws T).lookup k = some (.file oid ex) := by
  have hex : ∃ oid ex, ws.lookup k = some (.file oid ex) ∧ (nodeEntry (.file oid ex)).hashInfo = e.hashInfo := by
    apply Classical.byContradiction
    intro hno
    exact hns _ (sched_file_create cache ws T hw ht k e he hf hno) rfl
  obtain ⟨oid, ex, hwk, hhash⟩ := hex
  have h1 : (ws1 ws T).lookup k = ws.lookup k := by
    rw [ws1_lookup]
    have : ¬ ∃ p ∈ fdKeys ws T, p <+: k := by
      rintro ⟨p, hp, hpk⟩
      obtain ⟨pe, hpe, rfl⟩ := List.mem_map.mp hp
      obtain ⟨o2, e2, hl2, hpe2⟩ := fd_ws cache ws T hw ht pe hpe
      by_cases hpk' : pe.1 = k
      · obtain ⟨_, _, hdiff⟩ := (acts_inv2 cache ws T hw ht).fdelete pe hpe
        have := hdiff e (by rw [entryOf_target cache T ht, hpk', he])
        rw [hpk', hwk] at hl2
        injection hl2 with hl2; injection hl2 with ho he'
        subst ho; subst he'
        rw [hpe2] at this
        rcases this with h | h
        · exact h hhash
        · rw [hf] at h; simp [nodeEntry, isDirE] at h
      · have hpne : pe.1 ≠ [] := by intro h; rw [h, hw.noRoot] at hl2; cases hl2
        have := hw.tree k _ hwk pe.1 hpne hpk hpk'
        rw [this] at hl2; cases hl2
    simp [this]
  have h2 : (ws2 ws T).lookup k = (ws1 ws T).lookup k := by
    apply foldl_rmdir_lookup_not_mem
    intro hmem
    have hmem' : k ∈ ddKeys ws T := (List.mergeSort_perm _ _).mem_iff.mp hmem
    obtain ⟨pd, hpd, rfl⟩ := List.mem_map.mp hmem'
    have := (dd_ws cache ws T hw ht pd hpd).1
    rw [hwk] at this; cases this
  exact ⟨oid, ex, hwk, hhash, by rw [h2, h1, hwk]⟩

/-- a workspace file with the target's content but without the executable bit the target asks for is scheduled for `chmod` -/
theorem sched_chmod (k : Key) (e : Entry) (he : T.lookup k = some e) (hf : isDirE e = false) (hx : isExecE e = true)
    (oid : Str) (hwk : ws.lookup k = some (.file oid false))
    (hhash : (nodeEntry (.file oid false)).hashInfo = e.hashInfo) : (k, e) ∈ (acts ws T).filesChmod := by
  unfold acts
  have hwo : WFOpt (some (indexOfWs ws)) := wfIdx_indexOfWs ws hw
  have hwn : WFOpt (some T) := ht.wf
  have hne : entryOf (some T) k = some e := by rw [entryOf_target cache T ht, he]
  have hoe : entryOf (some (indexOfWs ws)) k = some (nodeEntry (.file oid false)) := by rw [entryOf_ws, hwk]; rfl
  have hxx : isExecE (nodeEntry (.file oid false)) ≠ isExecE e := by rw [hx]; simp [nodeEntry, isExecE]
  exact compare_schedules_chmod true _ _ hwo hwn k _ e hoe hne
    (diffEntry_exec _ e rfl (ht.hasMeta k e he) hxx) hhash (by rw [hf]; rfl) hf hxx

/-- **C09 (executable entries).** Under the hypotheses of `apply_compare_converges`, after applying what `compare`
    schedules every file the target marks executable is a file with the executable bit set — whether it was
    created, already there without the bit, or already there with it. -/
theorem apply_compare_exec :
    ∃ ws', apply cache (compare true (some (indexOfWs ws)) (some T)) ws = .ok ws' [] ∧
      ∀ k e, T.lookup k = some e → isDirE e = false → isExecE e = true → ∃ oid, ws'.lookup k = some (.file oid true) := by
  have hm2 := mid_ws2 cache ws T hw ht
  obtain ⟨w3, h3, hm3, _⟩ := mid_foldl_makedirs cache ws T ht ((acts ws T).dirsCreate.map (·.1)) (ws2 ws T) hm2
    (by
      intro d hd q hq hpre
      obtain ⟨p, hp, rfl⟩ := List.mem_map.mp hd
      obtain ⟨hT, hdir⟩ := dc_target cache ws T hw ht p hp
      exact ⟨p.1, p.2, hT, hpre, fun _ => hdir⟩)
  obtain ⟨w4, h4, hm4, hdone, _⟩ := mid_foldl_createFile cache ws T hw ht (acts ws T).filesCreate w3 hm3 (fun p hp => hp) []
  refine ⟨(acts ws T).filesChmod.foldl chmodFile w4, ?_, ?_⟩
  · unfold apply
    have e1 : (compare true (some (indexOfWs ws)) (some T)).filesDelete.foldl (fun w p => removePath w p.1) ws = ws1 ws T := by
      unfold ws1 fdKeys acts
      rw [List.foldl_map]
    simp only [e1]
    have e2 : (deepestFirst ((compare true (some (indexOfWs ws)) (some T)).dirsDelete.map (·.1))).foldl rmdir (ws1 ws T) = ws2 ws T := rfl
    rw [e2]
    have e3 : ((compare true (some (indexOfWs ws)) (some T)).dirsCreate.map (·.1)).foldlM makedirs (ws2 ws T) = some w3 := h3
    rw [e3]
    simp only
    have e4 : (compare true (some (indexOfWs ws)) (some T)).filesCreate.foldl (createFile cache) (w3, []) = (w4, []) := h4
    rw [e4]
    rfl
  · intro k e he hf hx
    by_cases hin : ∃ p ∈ (acts ws T).filesCreate, p.1 = k
    · -- created: scheduled for chmod as well
      obtain ⟨p, hp, rfl⟩ := hin
      obtain ⟨hT, _⟩ := fc_target cache ws T hw ht p hp
      have hpe : p.2 = e := by rw [hT] at he; exact Option.some.inj he
      have hch : p ∈ (acts ws T).filesChmod := compare_execInv true _ _ p hp (by rw [hpe]; exact hx)
      have ho := hdone p hp
      obtain ⟨h, oid, hh, hv, _, _⟩ := ht.cached p.1 e he hf
      have hfo : fileOid T p.1 = some oid := by unfold fileOid; rw [he]; simp [hf, hh, hv]
      rw [hfo] at ho
      obtain ⟨oid', ex, hl⟩ := oidAt_some w4 p.1 (by rw [ho]; simp)
      refine ⟨oid', ?_⟩
      rw [foldl_chmod_file _ w4 p.1 oid' ex hl]
      have : ((acts ws T).filesChmod.any fun q => decide (q.1 = p.1)) = true :=
        List.any_eq_true.mpr ⟨p, hch, by simp⟩
      simp [this]
    · -- not created: it was there with the right content; either it had the bit or chmod is scheduled
      have hns : ∀ p ∈ (acts ws T).filesCreate, p.1 ≠ k := fun p hp e' => hin ⟨p, hp, e'⟩
      obtain ⟨oid, ex, hwk, hhash, hk2⟩ := unscheduled_kept_ws2 cache ws T hw ht k e he hf hns
      have hk3 : w3.lookup k = some (.file oid ex) := foldlM_makedirs_keeps _ _ _ h3 k _ hk2
      have hk4 : w4.lookup k = some (.file oid ex) := by
        have := foldl_createFile_keeps cache (acts ws T).filesCreate (w3, []) k _ hns hk3
        rw [h4] at this
        exact this
      refine ⟨oid, ?_⟩
      rw [foldl_chmod_file _ w4 k oid ex hk4]
      cases ex with
      | true => simp
      | false =>
        have hch := sched_chmod cache ws T hw ht k e he hf hx oid hwk hhash
        have : ((acts ws T).filesChmod.any fun q => decide (q.1 = k)) = true :=
          List.any_eq_true.mpr ⟨(k, e), hch, by simp⟩
        simp [this]

end classify

/-! ### decidable sufficient conditions, and a concrete instance -/

def wsOKb (ws : Ws) : Bool :=
  decide (AList.WF ws) &&
  ws.all (fun e => (prefixes e.1).all fun q => decide (q = e.1) || decide (ws.lookup q = some .dir)) &&
  decide (ws.lookup [] = none) &&
  ws.all (fun e => match e.2 with | .file oid _ => !oid.isEmpty | .dir => true)

theorem wsOK_of_check (ws : Ws) (h : wsOKb ws = true) : WsOK ws := by
  simp only [wsOKb, Bool.and_eq_true, decide_eq_true_eq, List.all_eq_true, Bool.or_eq_true] at h
  obtain ⟨⟨⟨h1, h2⟩, h3⟩, h4⟩ := h
  refine ⟨h1, ?_, h3, ?_⟩
  · intro k n hk q hq hpre hne
    have hm := AList.mem_of_lookup ws k n hk
    rcases h2 (k, n) hm q ((mem_prefixes k q).mpr ⟨hq, hpre⟩) with h | h
    · exact absurd h hne
    · exact h
  · intro k oid ex hk hnil
    have hm := AList.mem_of_lookup ws k _ hk
    have := h4 _ hm
    simp [hnil] at this

def targetOKb (cache : List Str) (T : Index) : Bool :=
  T.all (fun x => (prefixes x.1).all fun q => decide (q = x.1) ||
    (match T.lookup q with | some e' => entryIsDir (fixMeta e') | none => true)) &&
  T.all (fun x => x.2.mt.isSome) &&
  T.all (fun x => isDirE x.2 || (match x.2.hashInfo with
    | some h => (match h.value with | some oid => h.truthy && cache.contains oid | none => false)
    | none => false)) &&
  decide (T.lookup [] = none)

theorem targetOK_of_check (cache : List Str) (T : Index) (h : targetOKb cache T = true) : TargetOK cache T := by
  simp only [targetOKb, Bool.and_eq_true, decide_eq_true_eq, List.all_eq_true, Bool.or_eq_true] at h
  obtain ⟨⟨⟨h1, h2⟩, h3⟩, h4⟩ := h
  refine ⟨?_, ?_, ?_, h4⟩
  · intro p suffix e e' hs hl hp
    have hm := AList.mem_of_lookup T _ e hl
    have hpne : p ≠ [] := by intro hnil; subst hnil; rw [h4] at hp; cases hp
    have := h1 _ hm p ((mem_prefixes _ p).mpr ⟨hpne, List.prefix_append _ _⟩)
    rcases this with h | h
    · exfalso
      have := congrArg List.length h
      simp only [List.length_append] at this
      exact hs (List.eq_nil_of_length_eq_zero (by omega))
    · rw [hp] at h; exact h
  · intro k e hl
    exact h2 _ (AList.mem_of_lookup T k e hl)
  · intro k e hl hf
    have := h3 _ (AList.mem_of_lookup T k e hl)
    simp only [hf, Bool.false_eq_true, false_or] at this
    cases hh : e.hashInfo with
    | none => simp [hh] at this
    | some hi =>
      cases hv : hi.value with
      | none => simp [hh, hv] at this
      | some oid =>
        simp only [hh, hv, Bool.and_eq_true] at this
        exact ⟨hi, oid, rfl, hv, this.1, this.2⟩

/-- a workspace with a stale file, a file to be replaced by a directory and a nested directory to be removed,
    against a target with two files (one nested) — the hypotheses of the theorem hold, and the model run agrees -/
def exWs : Ws :=
  [([['a']], .file ['1'] false), ([['b']], .file ['2'] false), ([['d']], .dir), ([['d'], ['s']], .dir),
   ([['d'], ['s'], ['x']], .file ['3'] false)]
def exT : Index :=
  [([['a']], { mt := some {}, hashInfo := some { name := some kMd5, value := some ['9'] } }),
   ([['b'], ['c']], { mt := some {}, hashInfo := some { name := some kMd5, value := some ['2'] } })]

example : WsOK exWs := wsOK_of_check exWs (by decide)
example : TargetOK [['9'], ['2']] exT := targetOK_of_check _ exT (by decide)
example : ∃ ws', apply [['9'], ['2']] (compare true (some (indexOfWs exWs)) (some exT)) exWs = .ok ws' [] ∧
    ∀ k, oidAt ws' k = fileOid exT k :=
  apply_compare_converges _ exWs exT (wsOK_of_check exWs (by decide)) (targetOK_of_check _ exT (by decide))

end DvcData.IndexCheckout
