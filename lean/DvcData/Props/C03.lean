import DvcData.Proofs.Tree
import DvcData.Proofs.JsonParse
/-!
# C03 — a directory's identifier is a canonical, deterministic function of its contents
-/
namespace DvcData.Tree
open DvcData Path Json MetaInfo List

/-- **(a) insertion / walk order does not matter.** Two `_dict`s with the same entries in any
    order serialise to the same bytes (with or without metadata), hence get the same identifier. -/
theorem asBytes_perm (w : Bool) (t1 t2 : Tree) (hp : t1 ~ t2) (hwf : AList.WF t1)
    (hok : ∀ e ∈ t1, KeyOK e.1) : asBytes w t1 = asBytes w t2 := by
  unfold asBytes
  rw [asList_perm w t1 t2 hp (relpaths_nodup t1 hwf hok)]

theorem digest_perm (H : List Char → Str) (t1 t2 : Tree) (hp : t1 ~ t2) (hwf : AList.WF t1)
    (hok : ∀ e ∈ t1, KeyOK e.1) : digest H t1 = digest H t2 := by
  unfold digest; rw [asBytes_perm false t1 t2 hp hwf hok]

/-- **(b) the identifier ignores file metadata.** -/
theorem digest_ignores_meta (H : List Char → Str) (t : Tree) : digest H (stripMeta t) = digest H t := by
  unfold digest asBytes; rw [asList_stripMeta]

/-- the (relpath, hash-dict) pairs a tree serialises -/
def pairs (t : Tree) : List (List Char × JObj) := t.map fun e => (joinC e.1, hiToDict e.2.2)

/-- recover the pair from a rendered (key-sorted) entry -/
def pairOfDict (d : JObj) : List Char × JObj :=
  ((match d.lookup relpathKey with | some (.str s) => s | _ => []), d.erase relpathKey)

/-- the hash algorithm is not literally called "relpath" -/
def HashNameOK (h : Option HashInfo) : Prop := ∀ n v, hiToDict h = [(n, v)] → n ≠ relpathKey

theorem hiToDict_cases (h : Option HashInfo) : hiToDict h = [] ∨ ∃ n v, hiToDict h = [(n, .str v)] := by
  unfold hiToDict
  cases h with
  | none => exact Or.inl rfl
  | some h =>
    simp only
    split
    · exact Or.inl rfl
    · split
      · cases h.value with
        | none => exact Or.inl rfl
        | some v => exact Or.inr ⟨_, v, rfl⟩
      · unfold HashInfo.toDict
        split
        · split
          · exact Or.inl rfl
          · exact Or.inr ⟨_, _, rfl⟩
        · exact Or.inl rfl

theorem perm_pair {α : Type} (a b : α) (l : List α) (h : l ~ [a, b]) : l = [a, b] ∨ l = [b, a] := by
  have hl := h.length_eq
  match l, hl with
  | [x, y], _ =>
    have hx : x ∈ [a, b] := h.subset (by simp)
    have hy : y ∈ [a, b] := h.subset (by simp)
    have ha : a ∈ [x, y] := h.symm.subset (by simp)
    have hb : b ∈ [x, y] := h.symm.subset (by simp)
    simp at hx hy ha hb
    rcases hx with rfl | rfl <;> rcases hy with rfl | rfl <;> simp_all

theorem pairOfDict_entry (e : Key × TVal) (hn : HashNameOK e.2.2) :
    pairOfDict (sortKeys (entryDict false e)) = (joinC e.1, hiToDict e.2.2) := by
  obtain ⟨k, m, h⟩ := e
  rcases hiToDict_cases h with h0 | ⟨n, v, h1⟩
  · simp [entryDict, h0, sortKeys, pairOfDict, AList.set, AList.lookup, AList.erase, relpathKey]
  · have hne : n ≠ relpathKey := hn n _ h1
    have hne' : relpathKey ≠ n := fun e => hne e.symm
    have hd : entryDict false (k, (m, h)) = [(n, .str v), (relpathKey, .str (joinC k))] := by
      simp [entryDict, h1, AList.set, hne]
    rw [hd]
    have hp := mergeSort_perm [(n, JVal.str v), (relpathKey, JVal.str (joinC k))]
      (fun a b => charsLe a.1 b.1)
    rcases perm_pair _ _ _ hp with h2 | h2
    · unfold sortKeys; rw [h2]
      simp [pairOfDict, AList.lookup, AList.erase, hne, hne', h1]
    · unfold sortKeys; rw [h2]
      simp [pairOfDict, AList.lookup, AList.erase, hne, hne', h1]

/-- **(c) two different sets never serialise to the same bytes**: equal listings (bytes) imply
    the same multiset of (relpath, hash) pairs. -/
theorem asBytes_injective (t1 t2 : Tree) (hn1 : ∀ e ∈ t1, HashNameOK e.2.2)
    (hn2 : ∀ e ∈ t2, HashNameOK e.2.2) (h : asBytes false t1 = asBytes false t2) :
    pairs t1 ~ pairs t2 := by
  have hinj := renderList_injective _ _ h
  have key : ∀ t : Tree, (∀ e ∈ t, HashNameOK e.2.2) →
      ((asList false t).map sortKeys).map pairOfDict ~ pairs t := by
    intro t hn
    unfold asList pairs
    simp only [map_map]
    have hp := (mergeSort_perm (t.map fun e => (joinC e.1, entryDict false e))
      (fun a b => charsLe a.1 b.1)).map (pairOfDict ∘ sortKeys ∘ fun x => x.2)
    simp only [map_map] at hp
    refine hp.trans (Perm.of_eq ?_)
    apply map_congr_left
    intro e he
    simp only [Function.comp_def]
    exact pairOfDict_entry e (hn e he)
  have a := key t1 hn1
  have b := key t2 hn2
  rw [hinj] at a
  exact a.symm.trans b

/-- **(d) serialising and re-parsing a listing is the identity** (on the key-sorted objects that
    `json.dumps(sort_keys=True)` writes) -/
theorem parse_asBytes (w : Bool) (t : Tree) :
    parseList (asBytes w t) = some ((asList w t).map sortKeys) :=
  parseList_renderList _

/-- a tree as staging builds it from a map of files: one entry per file, hash of its content -/
def buildTree {β : Type} (f : β → TVal) (files : List (Key × β)) : Tree := files.map fun e => (e.1, f e.2)

/-- the files below a prefix, re-rooted: what staging the sub-directory directly sees -/
def subFiles {β : Type} (files : List (Key × β)) (pfx : Key) : List (Key × β) :=
  files.filterMap fun e => match stripPrefix pfx e.1 with
    | some k => if k = [] then none else some (k, e.2)
    | none => none

/-- **(e) the object obtained for a sub-directory of a tree equals the object built directly from
    that sub-directory** (same entries, hence same bytes and identifier) -/
theorem subtree_eq_direct {β : Type} (f : β → TVal) (files : List (Key × β)) (pfx : Key) :
    subtree (buildTree f files) pfx = buildTree f (subFiles files pfx) :=
  subtree_map f files pfx

/-! non-vacuity -/
example : AList.WF ([([['a']], (none, none)), ([['d'], ['b']], (none, none))] : Tree) := by decide
example : KeyOK [['d'], ['b', ' ', 'c']] := by decide

end DvcData.Tree
