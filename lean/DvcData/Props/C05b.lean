import DvcData.Model.CheckoutNone
import DvcData.Props.C05
/-
  C05 for the removal of a whole directory output: with the directory itself processed last, every file in it is removed - or
  refused - on the strength of its *own* cache check, never on that of the directory object (`checkoutNone_safe`; the
  obligation F12 failed, and what the seeded change C05-m7 re-opens).  The `example` is the counter-model: the same loop with
  the directory first destroys an uncached file without a word.
-/
namespace DvcData.Checkout
open DvcData Path List

theorem delSeq_files_safe (cfg : Cfg) (hf : cfg.force = false) (hp : cfg.prompt ≠ some true) (cache : List Oid)
    (dirCached : Bool) (ws0 : Ws) : ∀ (ks : List Del) (w : Ws), (∀ d ∈ ks, d ≠ .root) → Safe cache ws0 w →
      Safe cache ws0 (delSeq cfg cache dirCached ks w).2 ∧
      ((delSeq cfg cache dirCached ks w).1 = true →
        (∀ k, Del.file k ∈ ks → (delSeq cfg cache dirCached ks w).2.lookup k = none) ∧
        (∀ k, w.lookup k = none → (delSeq cfg cache dirCached ks w).2.lookup k = none)) := by
  intro ks
  induction ks with
  | nil => intro w _ h; exact ⟨h, fun _ => ⟨by simp, fun _ hk => hk⟩⟩
  | cons d r ih =>
    intro w hnr hs
    have hnr' : ∀ d ∈ r, d ≠ .root := fun x hx => hnr x (mem_cons_of_mem _ hx)
    cases d with
    | root => exact absurd rfl (hnr .root (by simp))
    | file k =>
      simp only [delSeq]
      cases hk : w.lookup k with
      | none =>
        simp only
        obtain ⟨i1, i2⟩ := ih w hnr' hs
        refine ⟨i1, fun hok => ?_⟩
        obtain ⟨j1, j2⟩ := i2 hok
        refine ⟨?_, j2⟩
        intro k' hk'
        rcases mem_cons.mp hk' with e | hk''
        · injection e with e; subst e; exact j2 k' hk
        · exact j1 k' hk''
      | some f =>
        simp only
        cases hg : guardedRemove cfg cache w k f with
        | none => exact ⟨hs, fun h => by simp at h⟩
        | some w' =>
          simp only
          obtain ⟨hc, rfl⟩ := guardedRemove_some cfg hf hp cache w k f w' hg
          obtain ⟨i1, i2⟩ := ih (w.erase k) hnr' (safe_erase cache ws0 w k f hs hk hc)
          refine ⟨i1, fun hok => ?_⟩
          obtain ⟨j1, j2⟩ := i2 hok
          refine ⟨?_, ?_⟩
          · intro k' hk'
            rcases mem_cons.mp hk' with e | hk''
            · injection e with e; subst e
              exact j2 k' (by rw [AList.lookup_erase]; simp)
            · exact j1 k' hk''
          · intro k' hk'
            exact j2 k' (by rw [AList.lookup_erase]; split <;> simp [hk'])

theorem delSeq_file_none (cfg : Cfg) (cache : List Oid) (dc : Bool) (k : Key) (r : List Del) (w : Ws)
    (h : w.lookup k = none) : delSeq cfg cache dc (.file k :: r) w = delSeq cfg cache dc r w := by
  simp [delSeq, h]

theorem delSeq_file_refuse (cfg : Cfg) (cache : List Oid) (dc : Bool) (k : Key) (r : List Del) (w : Ws) (f : WFile)
    (h : w.lookup k = some f) (hg : guardedRemove cfg cache w k f = none) :
    delSeq cfg cache dc (.file k :: r) w = (false, w) := by
  simp [delSeq, h, hg]

theorem delSeq_file_ok (cfg : Cfg) (cache : List Oid) (dc : Bool) (k : Key) (r : List Del) (w w' : Ws) (f : WFile)
    (h : w.lookup k = some f) (hg : guardedRemove cfg cache w k f = some w') :
    delSeq cfg cache dc (.file k :: r) w = delSeq cfg cache dc r w' := by
  simp [delSeq, h, hg]

theorem delSeq_root_refuse (cfg : Cfg) (cache : List Oid) (dc : Bool) (r : List Del) (w : Ws)
    (h : removeRoot cfg dc w = none) : delSeq cfg cache dc (.root :: r) w = (false, w) := by
  simp [delSeq, h]

theorem delSeq_root_ok (cfg : Cfg) (cache : List Oid) (dc : Bool) (r : List Del) (w w' : Ws)
    (h : removeRoot cfg dc w = some w') : delSeq cfg cache dc (.root :: r) w = delSeq cfg cache dc r w' := by
  simp [delSeq, h]

theorem delSeq_append (cfg : Cfg) (cache : List Oid) (dirCached : Bool) : ∀ (a b : List Del) (w : Ws),
    delSeq cfg cache dirCached (a ++ b) w =
      if (delSeq cfg cache dirCached a w).1 then delSeq cfg cache dirCached b (delSeq cfg cache dirCached a w).2
      else (false, (delSeq cfg cache dirCached a w).2) := by
  intro a
  induction a with
  | nil => intro b w; simp [delSeq]
  | cons d r ih =>
    intro b w
    cases d with
    | file k =>
      rw [cons_append]
      cases hk : w.lookup k with
      | none => rw [delSeq_file_none _ _ _ _ _ _ hk, delSeq_file_none _ _ _ _ _ _ hk]; exact ih b w
      | some f =>
        cases hg : guardedRemove cfg cache w k f with
        | none => rw [delSeq_file_refuse _ _ _ _ _ _ _ hk hg, delSeq_file_refuse _ _ _ _ _ _ _ hk hg]; simp
        | some w' => rw [delSeq_file_ok _ _ _ _ _ _ _ _ hk hg, delSeq_file_ok _ _ _ _ _ _ _ _ hk hg]; exact ih b w'
    | root =>
      rw [cons_append]
      cases hr : removeRoot cfg dirCached w with
      | none => rw [delSeq_root_refuse _ _ _ _ _ hr, delSeq_root_refuse _ _ _ _ _ hr]; simp
      | some w' => rw [delSeq_root_ok _ _ _ _ _ _ hr, delSeq_root_ok _ _ _ _ _ _ hr]; exact ih b w'

theorem safe_nil_of_empty (cache : List Oid) (ws0 w : Ws) (hs : Safe cache ws0 w) (he : ∀ k, w.lookup k = none) :
    Safe cache ws0 [] := by
  intro k f h0
  rcases hs k f h0 with h | h
  · rw [he k] at h; cases h
  · exact Or.inr h

/-- the directory steps after the files: the workspace is empty by then, so the `rmtree` has nothing left to destroy -/
theorem delSeq_roots_safe (cfg : Cfg) (cache : List Oid) (dirCached : Bool) (ws0 : Ws) : ∀ (ks : List Del) (w : Ws),
    (∀ d ∈ ks, d = .root) → Safe cache ws0 w → (∀ k, w.lookup k = none) →
    Safe cache ws0 (delSeq cfg cache dirCached ks w).2 := by
  intro ks
  induction ks with
  | nil => intro w _ hs _; exact hs
  | cons d r ih =>
    intro w hall hs he
    have hd : d = .root := hall d (by simp)
    subst hd
    simp only [delSeq]
    cases hr : removeRoot cfg dirCached w with
    | none => exact hs
    | some w' =>
      simp only
      have hw' : w' = [] := by
        unfold removeRoot at hr
        split at hr
        · split at hr
          · injection hr with hr; exact hr.symm
          · cases hr
        · injection hr with hr; exact hr.symm
      subst hw'
      exact ih [] (fun x hx => hall x (mem_cons_of_mem _ hx)) (safe_nil_of_empty cache ws0 w hs he) (by intro k; rfl)

/-- **C05, removal of a directory output.**  Without force and without an affirmative prompt, whatever the removal did -
    completed, or stopped at a refusal - every file of the directory is still there unchanged or its content is in the cache,
    for every order in which `diff()` lists the entries, whether or not the directory *object* is cached: the directory itself
    goes only after every file in it has passed its own guard. (All files of the directory are entries of the old tree: no
    `ignore` filter.) -/
theorem checkoutNone_safe (cfg : Cfg) (hf : cfg.force = false) (hp : cfg.prompt ≠ some true) (cache : List Oid)
    (dirCached : Bool) (ws : Ws) (order : List Del) (hall : ∀ k f, ws.lookup k = some f → Del.file k ∈ order)
    (k : Key) (f : WFile) (h0 : ws.lookup k = some f) :
    (checkoutNone cfg cache dirCached ws order).2.lookup k = some f ∨ inCache cache f.oid = true := by
  have base : Safe cache ws ws := fun k f h => Or.inl h
  unfold checkoutNone rootLast
  rw [delSeq_append]
  have hfiles : ∀ d ∈ order.filter (· ≠ .root), d ≠ .root := by
    intro d hd; simpa using (mem_filter.mp hd).2
  obtain ⟨s1, s2⟩ := delSeq_files_safe cfg hf hp cache dirCached ws (order.filter (· ≠ .root)) ws hfiles base
  split
  · rename_i hok
    obtain ⟨j1, j2⟩ := s2 hok
    have hempty : ∀ k', (delSeq cfg cache dirCached (order.filter (· ≠ .root)) ws).2.lookup k' = none := by
      intro k'
      cases hk' : ws.lookup k' with
      | none => exact j2 k' hk'
      | some f' => exact j1 k' (mem_filter.mpr ⟨hall k' f' hk', by simp⟩)
    have := delSeq_roots_safe cfg cache dirCached ws (order.filter (· = .root)) _
      (by intro d hd; simpa using (mem_filter.mp hd).2) s1 hempty
    exact this k f h0
  · exact s1 k f h0

/-- the hypotheses are met, and the order matters: the same loop *without* the sort removes the directory first, on the
    strength of the cached directory object, and an uncached file goes with it unasked -/
example :
    let cfg : Cfg := { force := false, relink := false, prompt := none, types := [.copy] }
    let ws : Ws := [([['p']], { oid := "precious", link := .copy })]
    -- as `_checkout` does it: refused, the file is still there
    checkoutNone cfg [] true ws [.root, .file [['p']]] = (false, ws) ∧
    -- the unsorted loop: completed, the file is gone although its content is nowhere else
    delSeq cfg [] true [.root, .file [['p']]] ws = (true, []) := by
  decide

/-- **the hypothesis `hall` of `checkoutNone_safe` cannot be dropped** (the C05 known finding, as a theorem about the model):
    a file of the directory that the old tree does not name - hidden by the caller's ignore object - whose content is in no
    cache is gone after a completed removal of the output, without force and without an affirmative prompt. -/
theorem checkoutNone_hidden_file_lost :
    ∃ (cfg : Cfg) (cache : List Oid) (ws : Ws) (order : List Del) (k : Key) (f : WFile),
      cfg.force = false ∧ cfg.prompt ≠ some true ∧ ws.lookup k = some f ∧ Del.file k ∉ order ∧
      (checkoutNone cfg cache true ws order).1 = true ∧
      (checkoutNone cfg cache true ws order).2.lookup k = none ∧ inCache cache f.oid = false := by
  refine ⟨{ force := false, relink := false, prompt := none, types := [.copy] }, ["tracked"],
    [(["a".toList], { oid := "tracked", link := .copy }), (["build.log".toList], { oid := "only-copy", link := .copy })],
    [.root, .file ["a".toList]], ["build.log".toList], { oid := "only-copy", link := .copy }, rfl, by simp, by decide, by decide, by decide, by decide, by decide⟩

end DvcData.Checkout
