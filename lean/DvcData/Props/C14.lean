import DvcData.Model.Hash
/-!
# C14 — hashing is correct, chunking-independent, and a faithful pass-through
-/
namespace DvcData.Hash

theorem foldl_readPlain (cs : List Bytes) : ∀ s : Stream,
    (cs.foldl readPlain s).fed = s.fed ++ cs.flatten ∧
    (cs.foldl readPlain s).total = s.total + cs.flatten.length ∧
    (cs.foldl readPlain s).passed = s.passed ++ cs := by
  induction cs with
  | nil => intro s; simp
  | cons c r ih =>
    intro s
    simp only [List.foldl_cons, List.flatten_cons, List.length_append]
    obtain ⟨h1, h2, h3⟩ := ih (readPlain s c)
    rw [h1, h2, h3]
    simp [readPlain, List.append_assoc, Nat.add_assoc]

/-- **chunking independence / correctness**: for every algorithm other than the legacy one, every
    content `b` and every read schedule `cs` (any partition of `b`), the digest is `H b`. -/
theorem fobjHash_eq {δ : Type} (H : Bytes → δ) (name : String) (hn : isDos2Unix name = false)
    (cs : List Bytes) : digest H (runStream name cs) = H cs.flatten := by
  unfold runStream readStep digest
  simp only [hn]
  have := (foldl_readPlain cs {}).1
  simp at this
  simp [this]

/-- **pass-through and count**: the chunks handed on are exactly the chunks read, `total_read` is
    the number of bytes read -/
theorem passthrough (name : String) (hn : isDos2Unix name = false) (cs : List Bytes) :
    (runStream name cs).passed = cs ∧ (runStream name cs).total = cs.flatten.length := by
  unfold runStream readStep
  simp only [hn]
  obtain ⟨_, h2, h3⟩ := foldl_readPlain cs {}
  simp only [Bool.false_eq_true, if_false]
  constructor
  · simpa using h3
  · rw [h2]; simp

theorem foldl_readDos2Unix_passed (cs : List Bytes) : ∀ s : Stream,
    (cs.foldl readDos2Unix s).passed = s.passed ++ cs := by
  induction cs with
  | nil => intro s; simp
  | cons c r ih => intro s; simp [List.foldl_cons, ih, readDos2Unix]

theorem foldl_readDos2Unix_total (cs : List Bytes) : ∀ s : Stream,
    (cs.foldl readDos2Unix s).total = s.total + cs.flatten.length := by
  induction cs with
  | nil => intro s; simp
  | cons c r ih =>
    intro s
    simp only [List.foldl_cons, ih, List.flatten_cons, List.length_append]
    simp [readDos2Unix, Nat.add_assoc]

/-- **pass-through and count, every stream class**: whatever the algorithm name — the legacy text-normalising
    one included — the chunks handed on are exactly the chunks read and `total_read` is the number of bytes
    read (not the number of bytes hashed) -/
theorem passthrough_all (name : String) (cs : List Bytes) :
    (runStream name cs).passed = cs ∧ (runStream name cs).total = cs.flatten.length := by
  cases hn : isDos2Unix name with
  | false => exact passthrough name hn cs
  | true =>
    unfold runStream readStep
    simp only [hn, if_true]
    constructor
    · simpa using foldl_readDos2Unix_passed cs {}
    · rw [foldl_readDos2Unix_total]; simp

/-- the legacy text-normalising stream never alters the bytes passed through -/
theorem dos2unix_passthrough_raw (name : String) (hn : isDos2Unix name = true) (cs : List Bytes) :
    (runStream name cs).passed = cs := by
  unfold runStream readStep
  simp only [hn, if_true]
  simpa using foldl_readDos2Unix_passed cs {}

/-- a file that fits one read: digest of the normalised bytes if sniffed as text, raw otherwise -/
theorem dos2unix_single_read {δ : Type} (H : Bytes → δ) (name : String) (hn : isDos2Unix name = true)
    (c : Bytes) (hc : c ≠ []) :
    digest H (runStream name [c]) =
      H (if isTextBlock (c.take CHUNK) then dos2unix c else c) := by
  have hce : c.isEmpty = false := by cases c <;> simp_all
  simp [runStream, readStep, hn, readDos2Unix, digest, hce]

theorem binary_untouched {δ : Type} (H : Bytes → δ) (name : String) (hn : isDos2Unix name = true) (c : Bytes) (hc : c ≠ [])
    (hb : isTextBlock (c.take CHUNK) = false) : digest H (runStream name [c]) = H c := by
  rw [dos2unix_single_read H name hn c hc]; simp [hb]

theorem unix2dos_head (r : Bytes) : ∀ x t, unix2dos r = x :: t → x ≠ 10 := by
  intro x t h
  cases r with
  | nil => simp [unix2dos] at h
  | cons c r' =>
    simp only [unix2dos] at h
    split at h
    · simp at h; intro e; rw [← h.1] at e; exact absurd e (by decide)
    · rename_i hne; simp at h; rw [← h.1]; exact hne

theorem dos2unix_cons_ne (c : UInt8) (r : Bytes) (h : c ≠ 13 ∨ ∀ t, r ≠ 10 :: t) :
    dos2unix (c :: r) = c :: dos2unix r := by
  apply dos2unix.eq_2
  intro t hc hr
  rcases h with h | h
  · exact h hc
  · exact h t hr

/-- normalising the CRLF variant of any byte string gives the byte string back -/
theorem dos2unix_unix2dos (u : Bytes) : dos2unix (unix2dos u) = u := by
  induction u with
  | nil => simp [unix2dos, dos2unix]
  | cons c r ih =>
    simp only [unix2dos]
    split
    · rename_i hc; subst hc
      show dos2unix (13 :: 10 :: unix2dos r) = 10 :: r
      simp [dos2unix, ih]
    · rename_i hc
      rw [dos2unix_cons_ne c (unix2dos r) (Or.inr (fun t e => unix2dos_head r 10 t e rfl)), ih]

/-- a byte string without CRLF is a fixed point of the normalisation -/
def CRLFfree : Bytes → Bool
  | 13 :: 10 :: _ => false
  | _ :: r => CRLFfree r
  | [] => true

theorem dos2unix_of_CRLFfree (u : Bytes) (h : CRLFfree u = true) : dos2unix u = u := by
  induction u with
  | nil => simp [dos2unix]
  | cons c r ih =>
    cases r with
    | nil => simp [dos2unix]
    | cons d t =>
      by_cases hcd : c = 13 ∧ d = 10
      · obtain ⟨rfl, rfl⟩ := hcd; simp [CRLFfree] at h
      · have h' : CRLFfree (d :: t) = true := by
          unfold CRLFfree at h
          split at h
          · rename_i heq; simp at heq; exact absurd ⟨heq.1, heq.2.1⟩ hcd
          · rename_i heq; simp at heq; obtain ⟨_, rfl⟩ := heq; exact h
          · rename_i heq; simp at heq
        rw [dos2unix_cons_ne c (d :: t) (by
          by_cases hc : c = 13
          · right; intro t' e; simp at e; exact hcd ⟨hc, e.1⟩
          · left; exact hc), ih h']

/-- **CRLF and LF variants of a text file that fits one read get the same digest** — under the legacy name in
    any letter case -/
theorem crlf_lf_same_digest {δ : Type} (H : Bytes → δ) (name : String) (hn : isDos2Unix name = true) (u : Bytes) (hu : u ≠ [])
    (hfree : CRLFfree u = true)
    (ht1 : isTextBlock (u.take CHUNK) = true) (ht2 : isTextBlock ((unix2dos u).take CHUNK) = true) :
    digest H (runStream name [unix2dos u]) = digest H (runStream name [u]) := by
  have hne : unix2dos u ≠ [] := by
    cases u with
    | nil => exact absurd rfl hu
    | cons c r => simp only [unix2dos]; split <;> simp
  rw [dos2unix_single_read H name hn _ hne, dos2unix_single_read H name hn u hu]
  simp [ht1, ht2, dos2unix_unix2dos, dos2unix_of_CRLFfree u hfree]

/-- the sniffing threshold in integers: text iff no NUL and at most 30 % non-text bytes -/
theorem isTextBlock_threshold (b : Bytes) (hne : b ≠ []) :
    isTextBlock b = true ↔ (0 ∉ b ∧ 10 * nontext b ≤ 3 * b.length) := by
  have hbe : b.isEmpty = false := by cases b <;> simp_all
  unfold isTextBlock
  simp only [hbe, Bool.false_eq_true, if_false]
  by_cases h0 : (0 : UInt8) ∈ b
  · have : b.contains 0 = true := by simpa using h0
    simp [this, h0]
  · have : b.contains 0 = false := by simpa using h0
    simp [this, h0]

/-! non-vacuity -/
example : isDos2Unix "md5-dos2unix" = true ∧ isDos2Unix "MD5-DOS2UNIX" = true ∧ isDos2Unix "Md5-Dos2Unix" = true ∧
    isDos2Unix "md5" = false ∧ isDos2Unix "MD5" = false ∧ isDos2Unix "blake3" = false := by decide +kernel
example : CRLFfree [104, 105, 10, 120] = true ∧ isTextBlock ([104, 105, 10, 120].take CHUNK) = true ∧
    isTextBlock ((unix2dos [104, 105, 10, 120]).take CHUNK) = true := by decide
example : dos2unix [97, 13, 10, 13, 13, 10, 10] = [97, 10, 13, 10, 10] := by decide
example : isTextBlock [1, 2, 3, 65, 66, 67, 68, 69, 70, 71] = true ∧ isTextBlock [1, 2, 3, 4, 66, 67, 68, 69, 70, 71] = false := by decide

end DvcData.Hash
