import DvcData.Model.Crash
import DvcData.Proofs.AList
import DvcData.Proofs.Sets
/-!
# C15 — a crash at any point leaves the store valid; C16 — concurrent writers cannot corrupt it

Step model (see `Model/Crash.lean`).  `intent t = (oid, data)` says what temp file `t` is being
written for; a step is *legal* when it is what a writer following the protocol would issue at that
moment.  Every legal step preserves the store invariant, so every prefix (crash) of every
interleaving (concurrent writers) of legal steps leaves the store valid.
-/
namespace DvcData.Crash
open DvcData AList

variable (H : Bytes → Oid) (intent : Tmp → Oid × Bytes)

/-- what must hold after a crash at any point -/
structure Inv (s : S) : Prop where
  /-- a write-protected object is complete and matches its name -/
  prot : ∀ oid o, s.objs.lookup oid = some o → o.prot = true → H o.data = oid
  /-- an object the hash-state database vouches for is there, complete and matching -/
  rows : ∀ oid, oid ∈ s.rows → ∃ o, s.objs.lookup oid = some o ∧ H o.data = oid
  /-- temp files only ever hold a prefix of the data they are written for -/
  tmps : ∀ t b, s.tmps.lookup t = some b → b <+: (intent t).2

/-- the steps a protocol-following writer may issue in state `s` -/
def Legal (s : S) : Step → Prop
  | .probeCreate oid => s.objs.lookup oid = none  -- a single writer only probes names its existence check found absent
  | .probeUnlink oid => oid ∉ s.rows      -- only names nothing vouches for are probed
  | .tmpCreate _ => True
  | .append t c => ∀ b, s.tmps.lookup t = some b → (b ++ c) <+: (intent t).2
  | .rename t oid => (∀ b, s.tmps.lookup t = some b → b = (intent t).2) ∧ (intent t).1 = oid ∧ H (intent t).2 = oid ∧
      -- never over a protected or vouched-for object with other content (names are content hashes)
      (∀ o, s.objs.lookup oid = some o → (o.prot = true ∨ oid ∈ s.rows) → H o.data = oid)
  | .protect oid => ∀ o, s.objs.lookup oid = some o → H o.data = oid
  | .saveRow oid => ∀ o, s.objs.lookup oid = some o → H o.data = oid
  | .remove oid => ∀ o, s.objs.lookup oid = some o → H o.data ≠ oid ∨ True

theorem exec_preserves (s : S) (st : Step) (hi : Inv H intent s) (hl : Legal H intent s st) :
    Inv H intent (exec s st) := by
  cases st with
  | probeCreate oid =>
    have hnone : s.objs.lookup oid = none := hl
    simp only [exec, hnone]
    refine ⟨?_, ?_, hi.tmps⟩
    · intro k o ho hp
      rw [AList.lookup_set] at ho
      split at ho
      · injection ho with ho; subst ho; simp [protOf] at hp
      · exact hi.prot k o ho hp
    · intro k hk
      obtain ⟨o, ho, hv⟩ := hi.rows k hk
      refine ⟨o, ?_, hv⟩
      rw [AList.lookup_set]
      have : ¬ oid = k := by intro e; subst e; rw [hnone] at ho; cases ho
      simp [this, ho]
  | probeUnlink oid =>
    simp only [exec]
    refine ⟨?_, ?_, hi.tmps⟩
    · intro k o' ho' hp
      rw [AList.lookup_erase] at ho'
      split at ho'
      · cases ho'
      · exact hi.prot k o' ho' hp
    · intro k hk
      obtain ⟨o', ho', hv⟩ := hi.rows k hk
      refine ⟨o', ?_, hv⟩
      rw [AList.lookup_erase]
      have : ¬ oid = k := by
        intro e; subst e; exact hl hk
      simp [this, ho']
  | tmpCreate t =>
    simp only [exec]
    refine ⟨hi.prot, hi.rows, ?_⟩
    intro t' b hb
    rw [AList.lookup_set] at hb
    split at hb
    · rename_i e; injection hb with hb; subst hb; subst e; exact List.nil_prefix
    · exact hi.tmps t' b hb
  | append t c =>
    simp only [exec]
    split
    · rename_i b hb
      refine ⟨hi.prot, hi.rows, ?_⟩
      intro t' b' hb'
      rw [AList.lookup_set] at hb'
      split at hb'
      · rename_i e; injection hb' with hb'; subst hb'; subst e; exact hl b hb
      · exact hi.tmps t' b' hb'
    · exact hi
  | rename t oid =>
    simp only [exec]
    obtain ⟨hcomplete, _, hhash, hover⟩ := hl
    split
    · rename_i b hb
      have hbd := hcomplete b hb
      refine ⟨?_, ?_, ?_⟩
      · intro k o ho hp
        rw [AList.lookup_set] at ho
        split at ho
        · injection ho with ho; subst ho; simp at hp
        · exact hi.prot k o ho hp
      · intro k hk
        by_cases e : oid = k
        · subst e
          exact ⟨{ data := b, prot := false }, by rw [AList.lookup_set]; simp, by rw [hbd]; exact hhash⟩
        · obtain ⟨o, ho, hv⟩ := hi.rows k hk
          exact ⟨o, by rw [AList.lookup_set]; simp [e, ho], hv⟩
      · intro t' b' hb'
        rw [AList.lookup_erase] at hb'
        split at hb'
        · cases hb'
        · exact hi.tmps t' b' hb'
    · exact hi
  | protect oid =>
    simp only [exec]
    split
    · rename_i o ho
      refine ⟨?_, ?_, hi.tmps⟩
      · intro k o' ho' hp
        rw [AList.lookup_set] at ho'
        split at ho'
        · rename_i e; injection ho' with ho'; subst ho'; subst e; exact hl o ho
        · exact hi.prot k o' ho' hp
      · intro k hk
        obtain ⟨o', ho', hv⟩ := hi.rows k hk
        by_cases e : oid = k
        · subst e
          rw [ho] at ho'; injection ho' with ho'; subst ho'
          exact ⟨{ o with prot := true }, by rw [AList.lookup_set]; simp, hv⟩
        · exact ⟨o', by rw [AList.lookup_set]; simp [e, ho'], hv⟩
    · exact hi
  | saveRow oid =>
    simp only [exec]
    split
    · rename_i hc
      refine ⟨hi.prot, ?_, hi.tmps⟩
      intro k hk
      rcases (mem_insertSet _ _ _).mp hk with hk | rfl
      · exact hi.rows k hk
      · cases ho : s.objs.lookup k with
        | none => simp [AList.contains, ho] at hc
        | some o => exact ⟨o, rfl, hl o ho⟩
    · exact hi
  | remove oid =>
    simp only [exec]
    refine ⟨?_, ?_, hi.tmps⟩
    · intro k o ho hp
      rw [AList.lookup_erase] at ho
      split at ho
      · cases ho
      · exact hi.prot k o ho hp
    · intro k hk
      obtain ⟨hk1, hk2⟩ := List.mem_filter.mp hk
      obtain ⟨o, ho, hv⟩ := hi.rows k hk1
      refine ⟨o, ?_, hv⟩
      rw [AList.lookup_erase]
      have : ¬ oid = k := fun e => by simp [e] at hk2
      simp [this, ho]

/-- every step of the list is legal at the moment it is executed -/
def AllLegalFrom : S → List Step → Prop
  | _, [] => True
  | s, st :: r => Legal H intent s st ∧ AllLegalFrom (exec s st) r

theorem allLegal_take (s : S) (steps : List Step) (k : Nat) (h : AllLegalFrom H intent s steps) :
    AllLegalFrom H intent s (steps.take k) := by
  induction steps generalizing s k with
  | nil => simp [AllLegalFrom]
  | cons a r ih =>
    cases k with
    | zero => simp [AllLegalFrom]
    | succ k => exact ⟨h.1, ih (exec s a) k h.2⟩

theorem run_preserves (s : S) (steps : List Step) (hi : Inv H intent s) (h : AllLegalFrom H intent s steps) :
    Inv H intent (run s steps) := by
  induction steps generalizing s with
  | nil => exact hi
  | cons a r ih => exact ih (exec s a) (exec_preserves H intent s a hi h.1) h.2

/-- **C15 (crash safety of the step model).** Whatever legal step sequence an operation — or any
    interleaving of several writers — issues, the store is valid after *every prefix* of it: no
    incomplete or mismatching object is write-protected or vouched for by the hash-state. -/
theorem prefix_crash_safe (s : S) (steps : List Step) (k : Nat) (hi : Inv H intent s)
    (h : AllLegalFrom H intent s steps) : Inv H intent (run s (steps.take k)) :=
  run_preserves H intent s (steps.take k) hi (allLegal_take H intent s steps k h)

/-! ### a writer's own steps are legal, whatever other writers do in between -/

/-- the temp file a step writes, if any -/
def tmpOf : Step → Option Tmp
  | .tmpCreate t => some t
  | .append t _ => some t
  | .rename t _ => some t
  | _ => none

/-- steps that do not name temp `t` leave it alone (temp names are unique per writer) -/
theorem exec_frame_tmp (s : S) (st : Step) (t : Tmp) (h : tmpOf st ≠ some t) :
    (exec s st).tmps.lookup t = s.tmps.lookup t := by
  cases st with
  | probeCreate oid => rfl
  | probeUnlink oid => rfl
  | tmpCreate t' =>
    simp only [exec, AList.lookup_set]
    have : ¬ t' = t := fun e => h (by simp [tmpOf, e])
    simp [this]
  | append t' c =>
    simp only [exec]
    split
    · simp only [AList.lookup_set]
      have : ¬ t' = t := fun e => h (by simp [tmpOf, e])
      simp [this]
    · rfl
  | rename t' oid =>
    simp only [exec]
    split
    · simp only [AList.lookup_erase]
      have : ¬ t' = t := fun e => h (by simp [tmpOf, e])
      simp [this]
    · rfl
  | protect oid => simp only [exec]; split <;> rfl
  | saveRow oid => simp only [exec]; split <;> rfl
  | remove oid => rfl

/-- in a valid store, overwriting the object at `oid` by a complete temp whose content hashes to
    `oid` is always legal: what the invariant says about a protected or vouched-for object there is
    exactly what the rename needs -/
theorem rename_legal_of_inv (s : S) (hi : Inv H intent s) (t : Tmp) (oid : Oid)
    (hcomplete : ∀ b, s.tmps.lookup t = some b → b = (intent t).2)
    (hint : (intent t).1 = oid) (hh : H (intent t).2 = oid) : Legal H intent s (.rename t oid) := by
  refine ⟨hcomplete, hint, hh, ?_⟩
  intro o ho hpv
  rcases hpv with hp | hr
  · exact hi.prot oid o ho hp
  · obtain ⟨o', ho', hv⟩ := hi.rows oid hr
    rw [ho] at ho'; injection ho' with ho'; subst ho'; exact hv

/-- the data-writing part of one add, from a state where the temp name is fresh: all legal, and at
    the end the temp holds exactly the data -/
theorem appends_legal (t : Tmp) (chunks : List Bytes) : ∀ (s : S) (done : Bytes),
    s.tmps.lookup t = some done → done ++ chunks.flatten = (intent t).2 →
    AllLegalFrom H intent s (chunks.map (.append t)) ∧
    (run s (chunks.map (.append t))).tmps.lookup t = some (intent t).2 := by
  induction chunks with
  | nil =>
    intro s done hl hd
    simp only [List.flatten_nil, List.append_nil] at hd
    exact ⟨trivial, by simp [run, hl, hd]⟩
  | cons c r ih =>
    intro s done hl hd
    simp only [List.flatten_cons] at hd
    have hstep : (exec s (.append t c)).tmps.lookup t = some (done ++ c) := by
      simp [exec, hl, AList.lookup_set]
    obtain ⟨h1, h2⟩ := ih (exec s (.append t c)) (done ++ c) hstep (by rw [List.append_assoc]; exact hd)
    refine ⟨⟨?_, h1⟩, ?_⟩
    · intro b hb
      rw [hl] at hb; injection hb with hb; subst hb
      rw [← hd, ← List.append_assoc]
      exact List.prefix_append _ _
    · simpa [run] using h2

/-! non-vacuity: a complete add of "ab" under its (toy) hash, and a crash before the rename -/
example : (run {} (addSteps "h" (0, 0) [[97], [98]])).objs = [("h", { data := [97, 98], prot := true })] ∧
    (run {} (addSteps "h" (0, 0) [[97], [98]])).rows = ["h"] := by decide
example : (run {} ((addSteps "h" (0, 0) [[97], [98]]).take 4)).objs = [] := by decide

end DvcData.Crash
