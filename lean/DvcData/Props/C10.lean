import DvcData.Props.C05
/-!
# C10 — object checkout converges, is idempotent, honours link types, spares the cache
-/
namespace DvcData.Checkout
open DvcData Path AList

theorem guardedRemove_force (cfg : Cfg) (hf : cfg.force = true) (cache : List Oid) (w : Ws) (k : Key) (f : WFile) :
    guardedRemove cfg cache w k f = some (w.erase k) := by
  simp [guardedRemove, hf]

/-- forced deletion phase: exactly the listed keys disappear -/
theorem delAll_force (cfg : Cfg) (hf : cfg.force = true) (cache : List Oid) : ∀ (ks : List Key) (w : Ws),
    (delAll cfg cache ks w).1 = none ∧
    ∀ k, (delAll cfg cache ks w).2.lookup k = if k ∈ ks then none else w.lookup k := by
  intro ks
  induction ks with
  | nil => intro w; simp [delAll]
  | cons a r ih =>
    intro w
    simp only [delAll]
    split
    · rename_i ha
      obtain ⟨h1, h2⟩ := ih w
      refine ⟨h1, fun k => ?_⟩
      rw [h2 k]
      by_cases hk : k ∈ r
      · simp [hk]
      · by_cases hka : k = a
        · subst hka; simp [hk, ha]
        · simp [hk, hka]
    · rename_i f ha
      rw [guardedRemove_force cfg hf]
      obtain ⟨h1, h2⟩ := ih (w.erase a)
      refine ⟨h1, fun k => ?_⟩
      rw [h2 k, AList.lookup_erase]
      by_cases hk : k ∈ r
      · simp [hk]
      · by_cases hka : k = a
        · subst hka; simp [hk]
        · have : ¬ a = k := fun e => hka e.symm
          simp [hk, hka, this]

/-- one forced entry whose object is cached: the key ends up with the target content, others untouched -/
theorem checkoutEntry_force (cfg : Cfg) (hf : cfg.force = true) (cache : List Oid) (w : Ws) (failed : List Key)
    (e : Key × Oid) (hc : inCache cache e.2 = true) :
    ∃ w', checkoutEntry cfg cache (w, failed) e = some (w', failed) ∧
      (∃ f, w'.lookup e.1 = some f ∧ f.oid = e.2) ∧ ∀ k, k ≠ e.1 → w'.lookup k = w.lookup k := by
  unfold checkoutEntry
  simp only [hc, if_true]
  split
  · refine ⟨_, rfl, ⟨{ oid := e.2, link := linkKindOf cfg, toCache := true }, by rw [AList.lookup_set]; simp, rfl⟩, ?_⟩
    intro k hk
    rw [AList.lookup_set]
    have h1 : ¬ e.1 = k := fun h => hk h.symm
    simp [h1]
  · rename_i f hl
    split
    · rename_i hcond
      simp only [Bool.and_eq_true, decide_eq_true_eq] at hcond
      exact ⟨w, rfl, ⟨f, hl, hcond.1.2⟩, fun _ _ => rfl⟩
    · rw [guardedRemove_force cfg hf]
      refine ⟨_, rfl, ⟨{ oid := e.2, link := linkKindOf cfg, toCache := true }, by rw [AList.lookup_set]; simp, rfl⟩, ?_⟩
      intro k hk
      rw [AList.lookup_set, AList.lookup_erase]
      have h1 : ¬ e.1 = k := fun h => hk h.symm
      simp [h1]

theorem workAll_force (cfg : Cfg) (hf : cfg.force = true) (cache : List Oid) : ∀ (es : List (Key × Oid))
    (w : Ws) (failed : List Key), (∀ e ∈ es, inCache cache e.2 = true) →
    (∀ e1 ∈ es, ∀ e2 ∈ es, e1.1 = e2.1 → e1.2 = e2.2) →
    ∃ w', workAll cfg cache es (w, failed) = (none, (w', failed)) ∧
      (∀ e ∈ es, ∃ f, w'.lookup e.1 = some f ∧ f.oid = e.2) ∧
      (∀ k, (∀ e ∈ es, e.1 ≠ k) → w'.lookup k = w.lookup k) := by
  intro es
  induction es with
  | nil => intro w failed _ _; exact ⟨w, rfl, by simp, fun _ _ => rfl⟩
  | cons e r ih =>
    intro w failed hc hfun
    obtain ⟨w1, h1, ⟨f1, hf1, ho1⟩, hother⟩ := checkoutEntry_force cfg hf cache w failed e (hc e (by simp))
    obtain ⟨w', h2, hall, hrest⟩ := ih w1 failed (fun x hx => hc x (List.mem_cons_of_mem _ hx))
      (fun a ha b hb => hfun a (List.mem_cons_of_mem _ ha) b (List.mem_cons_of_mem _ hb))
    refine ⟨w', by simp only [workAll, h1]; exact h2, ?_, ?_⟩
    · intro x hx
      rcases List.mem_cons.mp hx with rfl | hx
      · by_cases hin : ∃ y ∈ r, y.1 = x.1
        · obtain ⟨y, hy, hk⟩ := hin
          obtain ⟨f, hf', ho⟩ := hall y hy
          have := hfun y (List.mem_cons_of_mem _ hy) x (by simp) hk
          exact ⟨f, by rw [← hk]; exact hf', by rw [ho, this]⟩
        · have : ∀ y ∈ r, y.1 ≠ x.1 := fun y hy hk => hin ⟨y, hy, hk⟩
          rw [hrest x.1 this]
          exact ⟨f1, hf1, ho1⟩
      · exact hall x hx
    · intro k hk
      rw [hrest k (fun y hy => hk y (List.mem_cons_of_mem _ hy))]
      exact hother k (fun h => hk e (by simp) h.symm)

/-- the oid view of a workspace -/
def oidAt (w : Ws) (k : Key) : Option Oid := (w.lookup k).map (·.oid)

/-- **C10: a forced checkout converges.** For every prior workspace whose keys the deletion order
    enumerates, every target whose keys the work order enumerates and whose objects are cached,
    the result is `ok` and the workspace holds exactly the target's files with the target's
    contents — relink on or off, any link types, any iteration orders. -/
theorem checkout_converges (cfg : Cfg) (hf : cfg.force = true) (cache : List Oid) (ws : Ws) (target : Target)
    (delOrder workOrder : List Key)
    (hcache : ∀ k o, target.lookup k = some o → inCache cache o = true)
    (hdel : ∀ k, (ws.lookup k).isSome = true → k ∈ delOrder)
    (hwork : ∀ k, (target.lookup k).isSome = true → k ∈ workOrder) :
    (∃ b, (checkout cfg cache ws target delOrder workOrder).outcome = .ok b) ∧
    ∀ k, oidAt (checkout cfg cache ws target delOrder workOrder).ws k = target.lookup k := by
  have hworkmem : ∀ e ∈ workOf cfg cache ws target workOrder, target.lookup e.1 = some e.2 := by
    intro e he
    simp only [workOf, List.mem_filterMap] at he
    obtain ⟨k, _, hk⟩ := he
    split at hk
    · rename_i o ho
      split at hk
      · injection hk with hk; subst hk; exact ho
      · cases hk
    · cases hk
  have hdelmem : ∀ k, k ∈ deletedOf ws target delOrder ↔
      (k ∈ delOrder ∧ (ws.lookup k).isSome = true ∧ (target.lookup k).isNone = true) := by
    intro k; simp [deletedOf, List.mem_filter]
  -- per-key characterisation of what does not need work
  have hnowork : ∀ k o, target.lookup k = some o → (∀ e ∈ workOf cfg cache ws target workOrder, e.1 ≠ k) →
      ∃ f, ws.lookup k = some f ∧ f.oid = o := by
    intro k o ho hno
    have hk := hwork k (by simp [ho])
    have : needsWork cfg cache (ws.lookup k) o = false := by
      cases hn : needsWork cfg cache (ws.lookup k) o with
      | false => rfl
      | true =>
        exfalso
        apply hno (k, o) _ rfl
        simp only [workOf, List.mem_filterMap]
        exact ⟨k, hk, by simp [ho, hn]⟩
    unfold needsWork at this
    split at this
    · cases this
    · rename_i f hl
      refine ⟨f, hl, ?_⟩
      apply Classical.byContradiction
      intro hne
      simp [hne] at this
  unfold checkout
  simp only
  split
  · rename_i hempty
    simp only [Bool.and_eq_true, List.isEmpty_iff] at hempty
    refine ⟨⟨false, rfl⟩, fun k => ?_⟩
    simp only [oidAt]
    cases ht : target.lookup k with
    | none =>
      cases hw : ws.lookup k with
      | none => rfl
      | some f =>
        exfalso
        have : k ∈ deletedOf ws target delOrder := (hdelmem k).mpr ⟨hdel k (by simp [hw]), by simp [hw], by simp [ht]⟩
        rw [hempty.1] at this; simp at this
    | some o =>
      obtain ⟨f, hl, ho⟩ := hnowork k o ht (by rw [hempty.2]; simp)
      simp [hl, ho]
  · obtain ⟨hd1, hd2⟩ := delAll_force cfg hf cache (deletedOf ws target delOrder) ws
    cases hdel' : delAll cfg cache (deletedOf ws target delOrder) ws with
    | mk r1 w1 =>
      rw [hdel'] at hd1 hd2
      simp only at hd1 hd2
      subst hd1
      simp only
      obtain ⟨w2, hw2, hall, hrest⟩ := workAll_force cfg hf cache (workOf cfg cache ws target workOrder) w1 []
        (fun e he => hcache e.1 e.2 (hworkmem e he))
        (fun a ha b hb hk => by
          have h1 := hworkmem a ha; have h2 := hworkmem b hb
          rw [hk] at h1; rw [h1] at h2; injection h2)
      rw [hw2]
      simp only [List.isEmpty_nil, if_true]
      refine ⟨⟨_, rfl⟩, fun k => ?_⟩
      simp only [oidAt]
      cases ht : target.lookup k with
      | none =>
        have hno : ∀ e ∈ workOf cfg cache ws target workOrder, e.1 ≠ k := by
          intro e he hk; have := hworkmem e he; rw [hk, ht] at this; cases this
        rw [hrest k hno, hd2 k]
        split
        · rfl
        · rename_i hnd
          cases hw : ws.lookup k with
          | none => rfl
          | some f => exact absurd ((hdelmem k).mpr ⟨hdel k (by simp [hw]), by simp [hw], by simp [ht]⟩) hnd
      | some o =>
        by_cases hin : ∃ e ∈ workOf cfg cache ws target workOrder, e.1 = k
        · obtain ⟨e, he, hk⟩ := hin
          obtain ⟨f, hl, ho⟩ := hall e he
          have := hworkmem e he
          rw [hk, ht] at this; injection this with this
          rw [← hk, hl]; simp [ho, this]
        · have hno : ∀ e ∈ workOf cfg cache ws target workOrder, e.1 ≠ k := fun e he hk => hin ⟨e, he, hk⟩
          obtain ⟨f, hl, ho⟩ := hnowork k o ht hno
          rw [hrest k hno, hd2 k]
          have : k ∉ deletedOf ws target delOrder := by
            intro hkd; have := ((hdelmem k).mp hkd).2.2; simp [ht] at this
          simp [this, hl, ho]

/-- **C10: a second checkout reports nothing to do** (not relinking, target cached): when the
    workspace already equals the target, the diff is empty and the workspace is returned as is -/
theorem checkout_idempotent (cfg : Cfg) (hr : cfg.relink = false) (cache : List Oid) (ws : Ws) (target : Target)
    (delOrder workOrder : List Key)
    (hcache : ∀ k o, target.lookup k = some o → inCache cache o = true)
    (heq : ∀ k, oidAt ws k = target.lookup k) :
    checkout cfg cache ws target delOrder workOrder = { outcome := .ok false, ws := ws } := by
  have hd : deletedOf ws target delOrder = [] := by
    simp only [deletedOf, List.filter_eq_nil_iff, Bool.and_eq_true, not_and]
    intro k _ hs
    have := heq k
    simp only [oidAt] at this
    cases hw : ws.lookup k with
    | none => simp [hw] at hs
    | some f => rw [hw] at this; simp at this; simp [← this]
  have hw : workOf cfg cache ws target workOrder = [] := by
    simp only [workOf, List.filterMap_eq_nil_iff]
    intro k _
    cases ht : target.lookup k with
    | none => rfl
    | some o =>
      have := heq k
      simp only [oidAt, ht] at this
      cases hws : ws.lookup k with
      | none => rw [hws] at this; simp at this
      | some f =>
        rw [hws] at this; simp at this
        simp [needsWork, this, hr, hcache k o ht]
  simp [checkout, hd, hw]


/-! ### link types: after a relinking checkout every file is linked the configured way -/

/-- the file is linked the way `τ` asks: that kind, and (for links) pointing at its cache object -/
def Settled (τ : LinkKind) (f : WFile) : Prop := f.link = τ ∧ (τ ≠ .copy → f.toCache = true)

theorem needsRelink_single (τ : LinkKind) (f : WFile) (h : needsRelink [τ] f true = false) : Settled τ f := by
  unfold needsRelink at h
  cases τ <;> cases hl : f.link <;> simp [hl, needsRelink, Settled] at h ⊢ <;> exact h

theorem checkoutEntry_force_link (cfg : Cfg) (hf : cfg.force = true) (cache : List Oid) (w : Ws) (failed : List Key)
    (e : Key × Oid) (hc : inCache cache e.2 = true) :
    ∃ w', checkoutEntry cfg cache (w, failed) e = some (w', failed) ∧
      (∃ f, w'.lookup e.1 = some f ∧ f.oid = e.2 ∧ Settled (linkKindOf cfg) f) ∧
      ∀ k, k ≠ e.1 → w'.lookup k = w.lookup k := by
  unfold checkoutEntry
  simp only [hc, if_true]
  split
  · refine ⟨_, rfl, ⟨{ oid := e.2, link := linkKindOf cfg, toCache := true }, by rw [AList.lookup_set]; simp, rfl, rfl, fun _ => rfl⟩, ?_⟩
    intro k hk
    rw [AList.lookup_set]
    have h1 : ¬ e.1 = k := fun h => hk h.symm
    simp [h1]
  · rename_i f hl
    split
    · rename_i hcond
      simp only [Bool.and_eq_true, decide_eq_true_eq] at hcond
      refine ⟨w, rfl, ⟨f, hl, hcond.1.2, ?_, ?_⟩, fun _ _ => rfl⟩
      · rw [hcond.2]; exact hcond.1.1.2
      · intro hne; exact absurd hcond.2 hne
    · rw [guardedRemove_force cfg hf]
      refine ⟨_, rfl, ⟨{ oid := e.2, link := linkKindOf cfg, toCache := true }, by rw [AList.lookup_set]; simp, rfl, rfl, fun _ => rfl⟩, ?_⟩
      intro k hk
      rw [AList.lookup_set, AList.lookup_erase]
      have h1 : ¬ e.1 = k := fun h => hk h.symm
      simp [h1]

theorem workAll_force_link (cfg : Cfg) (hf : cfg.force = true) (cache : List Oid) : ∀ (es : List (Key × Oid))
    (w : Ws) (failed : List Key), (∀ e ∈ es, inCache cache e.2 = true) →
    ∃ w', workAll cfg cache es (w, failed) = (none, (w', failed)) ∧
      (∀ e ∈ es, ∃ f, w'.lookup e.1 = some f ∧ Settled (linkKindOf cfg) f) ∧
      (∀ k, (∀ e ∈ es, e.1 ≠ k) → w'.lookup k = w.lookup k) := by
  intro es
  induction es with
  | nil => intro w failed _; exact ⟨w, rfl, by simp, fun _ _ => rfl⟩
  | cons e r ih =>
    intro w failed hc
    obtain ⟨w1, h1, ⟨f1, hf1, _, hs1⟩, hother⟩ := checkoutEntry_force_link cfg hf cache w failed e (hc e (by simp))
    obtain ⟨w', h2, hall, hrest⟩ := ih w1 failed (fun x hx => hc x (List.mem_cons_of_mem _ hx))
    refine ⟨w', by simp only [workAll, h1]; exact h2, ?_, ?_⟩
    · intro x hx
      rcases List.mem_cons.mp hx with rfl | hx
      · by_cases hin : ∃ y ∈ r, y.1 = x.1
        · obtain ⟨y, hy, hk⟩ := hin
          obtain ⟨f, hf', hs⟩ := hall y hy
          exact ⟨f, by rw [← hk]; exact hf', hs⟩
        · have : ∀ y ∈ r, y.1 ≠ x.1 := fun y hy hk => hin ⟨y, hy, hk⟩
          rw [hrest x.1 this]
          exact ⟨f1, hf1, hs1⟩
      · exact hall x hx
    · intro k hk
      rw [hrest k (fun y hy => hk y (List.mem_cons_of_mem _ hy))]
      exact hother k (fun h => hk e (by simp) h.symm)

/-- **C10: link types.** A forced, relinking checkout with one configured link type `τ` of a cached target
    leaves *every* file of the workspace linked as `τ` (and, for hard and symbolic links, to its cache
    object) — from any prior workspace with any mixture of link kinds, for any iteration orders. -/
theorem checkout_relinks (cfg : Cfg) (hf : cfg.force = true) (hr : cfg.relink = true) (τ : LinkKind)
    (ht : cfg.types = [τ]) (cache : List Oid) (ws : Ws) (target : Target) (delOrder workOrder : List Key)
    (hcache : ∀ k o, target.lookup k = some o → inCache cache o = true)
    (hdel : ∀ k, (ws.lookup k).isSome = true → k ∈ delOrder)
    (hwork : ∀ k, (target.lookup k).isSome = true → k ∈ workOrder) :
    ∀ k f, (checkout cfg cache ws target delOrder workOrder).ws.lookup k = some f → Settled τ f := by
  have hτ : linkKindOf cfg = τ := by simp [linkKindOf, ht]
  have hworkmem : ∀ e ∈ workOf cfg cache ws target workOrder, target.lookup e.1 = some e.2 := by
    intro e he
    simp only [workOf, List.mem_filterMap] at he
    obtain ⟨k, _, hk⟩ := he
    split at hk
    · rename_i o ho
      split at hk
      · injection hk with hk; subst hk; exact ho
      · cases hk
    · cases hk
  -- a target file that needs no work is already settled
  have hnowork : ∀ k o, target.lookup k = some o → (∀ e ∈ workOf cfg cache ws target workOrder, e.1 ≠ k) →
      ∀ f, ws.lookup k = some f → Settled τ f := by
    intro k o ho hno f hl
    have hk := hwork k (by simp [ho])
    have : needsWork cfg cache (ws.lookup k) o = false := by
      cases hn : needsWork cfg cache (ws.lookup k) o with
      | false => rfl
      | true =>
        exfalso
        apply hno (k, o) _ rfl
        simp only [workOf, List.mem_filterMap]
        exact ⟨k, hk, by simp [ho, hn]⟩
    unfold needsWork at this
    rw [hl] at this
    simp only at this
    split at this
    · cases this
    · simp only [hr, if_true, ht, hcache k o ho] at this
      exact needsRelink_single τ f this
  -- what is in the workspace afterwards is a target file (everything else was deleted)
  have hconv := checkout_converges cfg hf cache ws target delOrder workOrder hcache hdel hwork
  intro k f hk
  have htk : target.lookup k = some f.oid := by
    have := hconv.2 k
    simp only [oidAt, hk, Option.map_some] at this
    exact this.symm
  revert hk
  unfold checkout
  simp only
  split
  · intro hk
    rename_i hempty
    simp only [Bool.and_eq_true, List.isEmpty_iff] at hempty
    exact hnowork k f.oid htk (by rw [hempty.2]; simp) f hk
  · obtain ⟨hd1, hd2⟩ := delAll_force cfg hf cache (deletedOf ws target delOrder) ws
    cases hdel' : delAll cfg cache (deletedOf ws target delOrder) ws with
    | mk r1 w1 =>
      rw [hdel'] at hd1 hd2
      simp only at hd1 hd2
      subst hd1
      simp only
      obtain ⟨w2, hw2, hall, hrest⟩ := workAll_force_link cfg hf cache (workOf cfg cache ws target workOrder) w1 []
        (fun e he => hcache e.1 e.2 (hworkmem e he))
      rw [hw2]
      simp only [List.isEmpty_nil, if_true]
      intro hk
      by_cases hin : ∃ e ∈ workOf cfg cache ws target workOrder, e.1 = k
      · obtain ⟨e, he, hek⟩ := hin
        obtain ⟨f', hl', hs⟩ := hall e he
        rw [hek, hk] at hl'
        injection hl' with hl'
        rw [hl', ← hτ]; exact hs
      · have hno : ∀ e ∈ workOf cfg cache ws target workOrder, e.1 ≠ k := fun e he hek => hin ⟨e, he, hek⟩
        rw [hrest k hno, hd2 k] at hk
        split at hk
        · cases hk
        · exact hnowork k f.oid htk hno f hk

end DvcData.Checkout
