import DvcData.Model.Fetch
/-
  C18, "the fetched and failed counts add up to the objects that had to move" for the file-storage branch of `fetch`
  (the obligation the unrepaired code failed, F25: its error callback incremented a copy of the counter).
-/
namespace DvcData.Fetch
open DvcData List

theorem filters_grow (c : List Oid) (o : Oid) (rest : List Item) (hnotin : o ∉ rest.map (·.oid)) :
    hadToMove (c ++ [o]) rest = hadToMove c rest ∧
    (rest.filter fun x => !(c ++ [o]).contains x.oid && x.copy == .ok) = (rest.filter fun x => !c.contains x.oid && x.copy == .ok) := by
  have hagree : ∀ x ∈ rest, (c ++ [o]).contains x.oid = c.contains x.oid := by
    intro x hx
    have : x.oid ≠ o := fun e => hnotin (mem_map.mpr ⟨x, hx, e⟩)
    simp [this]
  constructor
  · unfold hadToMove
    apply filter_congr
    intro x hx
    rw [hagree x hx]
  · apply filter_congr
    intro x hx
    rw [hagree x hx]

/-- the counts a fold adds, with an arbitrary start (the induction is over the item list) -/
theorem foldl_step_counts : ∀ (items : List Item) (r : Res),
    (items.map (·.oid)).Nodup →
    (items.foldl step r).fetched + (items.foldl step r).failed =
      r.fetched + r.failed + (hadToMove r.cache items).length ∧
    (items.foldl step r).fetched = r.fetched + ((items.filter fun it => !r.cache.contains it.oid && it.copy == .ok).length) ∧
    (∀ o, o ∈ (items.foldl step r).cache ↔ o ∈ r.cache ∨ ∃ it ∈ items, it.oid = o ∧ it.copy = .ok) := by
  intro items
  induction items with
  | nil => intro r _; simp [hadToMove]
  | cons it rest ih =>
    intro r hnd
    simp only [map_cons, nodup_cons] at hnd
    obtain ⟨hnotin, hnd'⟩ := hnd
    simp only [foldl_cons]
    by_cases hmem : it.oid ∈ r.cache
    · -- already cached: nothing happens
      have hs : step r it = r := by unfold step; simp [hmem]
      rw [hs]
      obtain ⟨h1, h2, h3⟩ := ih r hnd'
      refine ⟨?_, ?_, ?_⟩
      · rw [h1]; simp [hadToMove, filter_cons, hmem]
      · rw [h2]; simp [filter_cons, hmem]
      · intro o
        rw [h3 o]
        constructor
        · rintro (h | ⟨x, hx, hxo, hxk⟩)
          · exact Or.inl h
          · exact Or.inr ⟨x, mem_cons_of_mem _ hx, hxo, hxk⟩
        · rintro (h | ⟨x, hx, hxo, hxk⟩)
          · exact Or.inl h
          · rcases mem_cons.mp hx with rfl | hx
            · subst hxo; exact Or.inl hmem
            · exact Or.inr ⟨x, hx, hxo, hxk⟩
    · have hc' : it.oid ∉ r.cache := hmem
      cases hk : it.copy with
      | ok =>
        have hs : step r it = { r with cache := r.cache ++ [it.oid], fetched := r.fetched + 1 } := by
          unfold step; simp [hc', hk]
        rw [hs]
        obtain ⟨h1, h2, h3⟩ := ih { r with cache := r.cache ++ [it.oid], fetched := r.fetched + 1 } hnd'
        obtain ⟨f1, f2⟩ := filters_grow r.cache it.oid rest hnotin
        simp only at h1 h2 h3
        rw [f1] at h1
        rw [f2] at h2
        refine ⟨?_, ?_, ?_⟩
        · rw [h1]; simp [hadToMove, filter_cons, hc', hk]; omega
        · rw [h2]; simp [filter_cons, hc', hk]; omega
        · intro o
          rw [h3 o]
          simp only [mem_append, mem_singleton]
          constructor
          · rintro ((h | h) | ⟨x, hx, hxo, hxk⟩)
            · exact Or.inl h
            · exact Or.inr ⟨it, by simp, h.symm, hk⟩
            · exact Or.inr ⟨x, mem_cons_of_mem _ hx, hxo, hxk⟩
          · rintro (h | ⟨x, hx, hxo, hxk⟩)
            · exact Or.inl (Or.inl h)
            · rcases mem_cons.mp hx with rfl | hx
              · exact Or.inl (Or.inr hxo.symm)
              · exact Or.inr ⟨x, hx, hxo, hxk⟩
      | missing =>
        have hs : step r it = r := by unfold step; simp [hc', hk]
        rw [hs]
        obtain ⟨h1, h2, h3⟩ := ih r hnd'
        refine ⟨?_, ?_, ?_⟩
        · rw [h1]; simp [hadToMove, filter_cons, hc', hk]
        · rw [h2]; simp [filter_cons, hc', hk]
        · intro o
          rw [h3 o]
          constructor
          · rintro (h | ⟨x, hx, hxo, hxk⟩)
            · exact Or.inl h
            · exact Or.inr ⟨x, mem_cons_of_mem _ hx, hxo, hxk⟩
          · rintro (h | ⟨x, hx, hxo, hxk⟩)
            · exact Or.inl h
            · rcases mem_cons.mp hx with rfl | hx
              · rw [hk] at hxk; cases hxk
              · exact Or.inr ⟨x, hx, hxo, hxk⟩
      | failed =>
        have hs : step r it = { r with failed := r.failed + 1 } := by
          unfold step; simp [hc', hk]
        rw [hs]
        obtain ⟨h1, h2, h3⟩ := ih { r with failed := r.failed + 1 } hnd'
        simp only at h1 h2 h3
        refine ⟨?_, ?_, ?_⟩
        · rw [h1]; simp [hadToMove, filter_cons, hc', hk]; omega
        · rw [h2]; simp [filter_cons, hc', hk]
        · intro o
          rw [h3 o]
          constructor
          · rintro (h | ⟨x, hx, hxo, hxk⟩)
            · exact Or.inl h
            · exact Or.inr ⟨x, mem_cons_of_mem _ hx, hxo, hxk⟩
          · rintro (h | ⟨x, hx, hxo, hxk⟩)
            · exact Or.inl h
            · rcases mem_cons.mp hx with rfl | hx
              · rw [hk] at hxk; cases hxk
              · exact Or.inr ⟨x, hx, hxo, hxk⟩

/-- **C18 (fetch from a file storage): the counts tell the truth.**  For distinct objects: `fetched + failed` is the number
    of objects that had to move (available at the source, not yet in the cache), `fetched` is the number that arrived, and the
    cache afterwards holds exactly what it held plus the objects whose copy succeeded. -/
theorem fetch_counts_add_up (cache : List Oid) (items : List Item) (hnd : (items.map (·.oid)).Nodup) :
    (fetch cache items).fetched + (fetch cache items).failed = (hadToMove cache items).length ∧
    (fetch cache items).fetched = (items.filter fun it => !cache.contains it.oid && it.copy == .ok).length ∧
    (∀ o, o ∈ (fetch cache items).cache ↔ o ∈ cache ∨ ∃ it ∈ items, it.oid = o ∧ it.copy = .ok) := by
  have := foldl_step_counts items { cache, fetched := 0, failed := 0 } hnd
  simpa [fetch] using this

/-- a clean retry completes the cache: afterwards every object whose source is there is in the cache -/
theorem fetch_retry_completes (cache : List Oid) (items : List Item) (hnd : (items.map (·.oid)).Nodup)
    (hclean : ∀ it ∈ items, it.copy ≠ .failed) :
    ∀ it ∈ items, it.copy ≠ .missing → it.oid ∈ (fetch cache items).cache := by
  intro it hit hm
  apply ((fetch_counts_add_up cache items hnd).2.2 it.oid).mpr
  right
  refine ⟨it, hit, rfl, ?_⟩
  cases hk : it.copy with
  | ok => rfl
  | missing => exact absurd hk hm
  | failed => exact absurd hk (hclean it hit)

/-- the hypotheses are met: three objects, one already cached, one failing, one missing at the source -/
example : fetch ["c"] [⟨"a", .ok⟩, ⟨"b", .failed⟩, ⟨"c", .ok⟩, ⟨"d", .missing⟩] = { cache := ["c", "a"], fetched := 1, failed := 1 } := by
  decide

end DvcData.Fetch
