import DvcData.Model.Checkout
import DvcData.Proofs.AList
/-!
# C05 — checkout never destroys user data that is not recoverable from the cache
-/
namespace DvcData.Checkout
open DvcData Path AList

/-- nothing was lost so far: every original file is still there, or its content is in the cache -/
def Safe (cache : List Oid) (ws0 w : Ws) : Prop :=
  ∀ k f, ws0.lookup k = some f → w.lookup k = some f ∨ inCache cache f.oid = true

theorem guardedRemove_some (cfg : Cfg) (hf : cfg.force = false) (hp : cfg.prompt ≠ some true)
    (cache : List Oid) (w : Ws) (k : Key) (f : WFile) (w' : Ws)
    (h : guardedRemove cfg cache w k f = some w') : inCache cache f.oid = true ∧ w' = w.erase k := by
  unfold guardedRemove at h
  simp only [hf, Bool.not_false, Bool.true_and] at h
  split at h
  · simp [hp] at h
  · rename_i hc
    simp only [Bool.not_eq_true', Bool.not_eq_false] at hc
    injection h with h
    exact ⟨hc, h.symm⟩

theorem safe_erase (cache : List Oid) (ws0 w : Ws) (k : Key) (f : WFile) (hs : Safe cache ws0 w)
    (hk : w.lookup k = some f) (hc : inCache cache f.oid = true) : Safe cache ws0 (w.erase k) := by
  intro k2 f2 h0
  by_cases e : k = k2
  · subst e
    rcases hs k f2 h0 with h | h
    · rw [hk] at h; cases h; exact Or.inr hc
    · exact Or.inr h
  · rcases hs k2 f2 h0 with h | h
    · left; rw [AList.lookup_erase]; simp [e, h]
    · exact Or.inr h

theorem safe_set (cache : List Oid) (ws0 w : Ws) (k : Key) (g : WFile) (hs : Safe cache ws0 w)
    (hk : w.lookup k = none) : Safe cache ws0 (w.set k g) := by
  intro k2 f2 h0
  by_cases e : k = k2
  · subst e
    rcases hs k f2 h0 with h | h
    · rw [hk] at h; cases h
    · exact Or.inr h
  · rcases hs k2 f2 h0 with h | h
    · left; rw [AList.lookup_set]; simp [e, h]
    · exact Or.inr h

theorem delAll_safe (cfg : Cfg) (hf : cfg.force = false) (hp : cfg.prompt ≠ some true) (cache : List Oid)
    (ws0 : Ws) : ∀ (ks : List Key) (w : Ws), Safe cache ws0 w → Safe cache ws0 (delAll cfg cache ks w).2 := by
  intro ks
  induction ks with
  | nil => intro w h; exact h
  | cons k r ih =>
    intro w h
    simp only [delAll]
    split
    · exact ih w h
    · rename_i f hk
      split
      · exact h
      · rename_i w' hg
        obtain ⟨hc, rfl⟩ := guardedRemove_some cfg hf hp cache w k f w' hg
        exact ih _ (safe_erase cache ws0 w k f h hk hc)

theorem checkoutEntry_safe (cfg : Cfg) (hf : cfg.force = false) (hp : cfg.prompt ≠ some true)
    (cache : List Oid) (ws0 : Ws) (st st' : Ws × List Key) (e : Key × Oid)
    (hs : Safe cache ws0 st.1) (h : checkoutEntry cfg cache st e = some st') : Safe cache ws0 st'.1 := by
  obtain ⟨w, failed⟩ := st
  unfold checkoutEntry at h
  simp only at h
  split at h
  · rename_i hk
    injection h with h; subst h
    split
    · exact safe_set cache ws0 w e.1 _ hs hk
    · exact hs
  · rename_i f hk
    split at h
    · injection h with h; subst h; exact hs
    · split at h
      · cases h
      · rename_i w' hg
        obtain ⟨hc, rfl⟩ := guardedRemove_some cfg hf hp cache w e.1 f w' hg
        injection h with h; subst h
        have hs' := safe_erase cache ws0 w e.1 f hs hk hc
        split
        · exact safe_set cache ws0 _ e.1 _ hs' (by rw [AList.lookup_erase]; simp)
        · exact hs'

theorem workAll_safe (cfg : Cfg) (hf : cfg.force = false) (hp : cfg.prompt ≠ some true) (cache : List Oid)
    (ws0 : Ws) : ∀ (es : List (Key × Oid)) (st : Ws × List Key), Safe cache ws0 st.1 →
      Safe cache ws0 (workAll cfg cache es st).2.1 := by
  intro es
  induction es with
  | nil => intro st h; exact h
  | cons e r ih =>
    intro st h
    simp only [workAll]
    split
    · exact h
    · rename_i st' hc
      exact ih st' (checkoutEntry_safe cfg hf hp cache ws0 st st' e h hc)

/-- **C05 (main).** Without force and without an affirmative prompt, whatever the checkout did to
    the workspace — on success, on `PromptError` or on `CheckoutError`, and wherever it stopped —
    every file of the prior workspace is still there unchanged, or its content is stored in the
    cache. For all workspaces, targets, caches, iteration orders, relink on/off, all link types. -/
theorem no_unrecoverable_loss (cfg : Cfg) (hf : cfg.force = false) (hp : cfg.prompt ≠ some true)
    (cache : List Oid) (ws : Ws) (target : Target) (delOrder workOrder : List Key) (k : Key) (f : WFile)
    (h0 : ws.lookup k = some f) :
    (checkout cfg cache ws target delOrder workOrder).ws.lookup k = some f ∨ inCache cache f.oid = true := by
  have base : Safe cache ws ws := fun k f h => Or.inl h
  unfold checkout
  simp only
  split
  · exact Or.inl h0
  · have hd := delAll_safe cfg hf hp cache ws (deletedOf ws target delOrder) ws base
    split
    · rename_i k' w heq
      rw [heq] at hd; exact hd k f h0
    · rename_i w1 heq
      rw [heq] at hd
      have hw := workAll_safe cfg hf hp cache ws (workOf cfg cache ws target workOrder) (w1, []) hd
      split
      · rename_i k' w fl heq2
        rw [heq2] at hw; exact hw k f h0
      · rename_i w2 failed heq2
        rw [heq2] at hw
        split <;> exact hw k f h0

/-- **C05 (as called).** The same for `checkoutFrom`, which first reads the existing workspace: when that fails (a link
    to nothing among its files) the error is passed on with the workspace exactly as it was — the files of a workspace
    that could not be read are never taken for absent and written over. -/
theorem no_unrecoverable_loss_from (cfg : Cfg) (hf : cfg.force = false) (hp : cfg.prompt ≠ some true)
    (cache : List Oid) (ws : Ws) (broken : Bool) (target : Target) (delOrder workOrder : List Key) (k : Key) (f : WFile)
    (h0 : ws.lookup k = some f) :
    (checkoutFrom cfg cache ws broken target delOrder workOrder).ws.lookup k = some f ∨ inCache cache f.oid = true := by
  unfold checkoutFrom
  cases broken with
  | true => exact Or.inl h0
  | false => exact no_unrecoverable_loss cfg hf hp cache ws target delOrder workOrder k f h0

/-- an unreadable workspace is left exactly as it was, forced or not -/
theorem unreadable_untouched (cfg : Cfg) (cache : List Oid) (ws : Ws) (target : Target) (delOrder workOrder : List Key) :
    (checkoutFrom cfg cache ws true target delOrder workOrder).ws = ws ∧
    (checkoutFrom cfg cache ws true target delOrder workOrder).outcome = .unreadable := ⟨rfl, rfl⟩

/-- when a removal is refused the file named by the error is untouched -/
theorem prompt_error_leaves_file (cfg : Cfg) (cache : List Oid) : ∀ (ks : List Key) (w : Ws) (k : Key),
    (delAll cfg cache ks w).1 = some k →
    ∃ f, (delAll cfg cache ks w).2.lookup k = some f ∧ inCache cache f.oid = false := by
  intro ks
  induction ks with
  | nil => intro w k h; simp [delAll] at h
  | cons a r ih =>
    intro w k h
    simp only [delAll] at h ⊢
    split
    · rename_i hk; simp only [hk] at h; exact ih w k h
    · rename_i f hk
      simp only [hk] at h
      split
      · rename_i hg
        simp only [hg] at h
        injection h with h; subst h
        refine ⟨f, hk, ?_⟩
        unfold guardedRemove at hg
        split at hg
        · rename_i hc; simp only [Bool.and_eq_true, Bool.not_eq_true'] at hc; exact hc.2
        · cases hg
      · rename_i w' hg
        simp only [hg] at h
        exact ih w' k h

/-! non-vacuity: an edited file whose content is not cached blocks the checkout -/
example : (checkout { force := false, relink := false, prompt := none, types := [.copy] } ["c1"]
    [([['a']], { oid := "edited", link := .copy })] [([['a']], "c1")] [[['a']]] [[['a']]]).outcome
    = .promptError [['a']] := by decide

end DvcData.Checkout

namespace DvcData.Links

/-- **link clean-up is conservative**: only paths that were recorded, that the caller does not list
    as in use, and that still carry exactly the recorded (inode, mtime) are returned -/
theorem unused_links_sound (links : List (Path × Stamp)) (used : List Path) (cur : Path → Option Stamp)
    (p : Path) (h : p ∈ unusedLinks links used cur) :
    p ∉ used ∧ ∃ s, (p, s) ∈ links ∧ cur p = some s := by
  simp only [unusedLinks, List.mem_map, List.mem_filter, Bool.and_eq_true, Bool.not_eq_true',
    beq_iff_eq] at h
  obtain ⟨l, ⟨hl, hu, hc⟩, rfl⟩ := h
  refine ⟨by simpa using hu, l.2, hl, hc⟩

/-- `remove_links` forgets exactly the removed paths -/
theorem remove_links_exact (links : List (Path × Stamp)) (unused : List Path) (l : Path × Stamp) :
    l ∈ removeLinks links unused ↔ (l ∈ links ∧ l.1 ∉ unused) := by
  simp [removeLinks]

end DvcData.Links
