import DvcData.Model.StorageMap
import DvcData.Proofs.AList
import DvcData.Props.C18
/-
  C18 (storage mappings): after any sequence of `add_*` calls the storage a key resolves to for a role is the one
  *declared* at the longest prefix of the key that declares that role - so resolution does not depend on the order of
  the calls (F29).
-/
namespace DvcData.PushFetch
open DvcData Path

theorem get_set (s : SInfo) (r r' : Role) (x : StoreId) :
    (s.set r x).get r' = if r = r' then some x else s.get r' := by
  cases r <;> cases r' <;> simp [SInfo.set, SInfo.get]

theorem keys_set' (d : SMap) (k : Key) (v : SInfo) :
    AList.keys (AList.set d k v) = if k ∈ AList.keys d then AList.keys d else AList.keys d ++ [k] := by
  induction d with
  | nil => simp [AList.set, AList.keys]
  | cons e r ih =>
    obtain ⟨k', v'⟩ := e
    by_cases h : k' = k
    · subst h; simp [AList.set, AList.keys]
    · have hne : ¬ k = k' := fun e => h e.symm
      simp only [AList.set, h, if_false, AList.keys, List.map_cons, List.mem_cons] at *
      rw [ih]
      have := hne
      by_cases hm : k ∈ List.map (fun x => x.1) r <;> simp [hm, this]

theorem wf_set' (d : SMap) (k : Key) (v : SInfo) (h : AList.WF d) : AList.WF (AList.set d k v) := by
  unfold AList.WF at *
  rw [keys_set']
  split
  · exact h
  · rename_i hn
    exact List.nodup_append.mpr ⟨h, by simp, by
      intro a ha b hb; simp at hb; subst hb; intro e; subst e; exact hn ha⟩

theorem wf_foldl (ds : List Decl) : ∀ m : SMap, AList.WF m → AList.WF (ds.foldl addDecl m) := by
  induction ds with
  | nil => intro m h; exact h
  | cons d r ih => intro m h; exact ih _ (wf_set' _ _ _ h)

theorem wf_build (ds : List Decl) : AList.WF (build ds) :=
  wf_foldl ds [] (by simp [AList.WF, AList.keys])

/-- no two declarations for the same prefix and role (a later one would replace the earlier) -/
def Uniq (ds : List Decl) : Prop := (ds.map fun d => (d.pfx, d.role)).Nodup

/-- what the own entry of a prefix says for a role after the calls -/
def own (m : SMap) (p : Key) (r : Role) : Option StoreId := (AList.lookup m p).bind (·.get r)

theorem own_addDecl (m : SMap) (d : Decl) (p : Key) (r : Role) :
    own (addDecl m d) p r = if d.pfx = p ∧ d.role = r then some d.store else own m p r := by
  unfold own addDecl
  rw [AList.lookup_set]
  by_cases hp : d.pfx = p
  · subst hp
    simp only [if_true, Option.bind_some, get_set, true_and]
    by_cases hr : d.role = r
    · simp [hr]
    · simp only [hr, if_false]
      cases AList.lookup m d.pfx <;> simp [SInfo.get]
      cases r <;> rfl
  · simp [hp]

theorem own_foldl (ds : List Decl) : ∀ (m : SMap) (p : Key) (r : Role) (s : StoreId), Uniq ds →
    (own (ds.foldl addDecl m) p r = some s ↔
      (∃ d ∈ ds, d.pfx = p ∧ d.role = r ∧ d.store = s) ∨
      ((∀ d ∈ ds, ¬ (d.pfx = p ∧ d.role = r)) ∧ own m p r = some s)) := by
  induction ds with
  | nil => intro m p r s _; simp
  | cons d rest ih =>
    intro m p r s hu
    have hu' : Uniq rest := by unfold Uniq at *; simp only [List.map_cons, List.nodup_cons] at hu; exact hu.2
    have hnot : ∀ d' ∈ rest, ¬ (d'.pfx = d.pfx ∧ d'.role = d.role) := by
      intro d' hd' ⟨h1, h2⟩
      unfold Uniq at hu
      simp only [List.map_cons, List.nodup_cons, List.mem_map, not_exists, not_and] at hu
      exact hu.1 d' hd' (by rw [h1, h2])
    rw [List.foldl_cons, ih _ p r s hu', own_addDecl]
    by_cases hd : d.pfx = p ∧ d.role = r
    · obtain ⟨h1, h2⟩ := hd
      subst h1; subst h2
      simp only [and_self, if_true, Option.some.injEq, List.mem_cons]
      constructor
      · rintro (⟨d', hd', h1, h2, h3⟩ | ⟨_, hs⟩)
        · exact absurd ⟨h1, h2⟩ (hnot d' hd')
        · exact Or.inl ⟨d, Or.inl rfl, rfl, rfl, hs⟩
      · rintro (⟨d', hd' | hd', h1, h2, h3⟩ | ⟨hall, _⟩)
        · subst hd'; exact Or.inr ⟨fun d'' hd'' => hnot d'' hd'', h3⟩
        · exact absurd ⟨h1, h2⟩ (hnot d' hd')
        · exact absurd ⟨rfl, rfl⟩ (hall d (Or.inl rfl))
    · simp only [hd, if_false, List.mem_cons]
      constructor
      · rintro (⟨d', hd', h⟩ | ⟨hall, hs⟩)
        · exact Or.inl ⟨d', Or.inr hd', h⟩
        · exact Or.inr ⟨fun d'' hd'' => by
            rcases hd'' with rfl | hd''
            · exact hd
            · exact hall d'' hd'', hs⟩
      · rintro (⟨d', hd' | hd', h1, h2, h3⟩ | ⟨hall, hs⟩)
        · subst hd'; exact absurd ⟨h1, h2⟩ hd
        · exact Or.inl ⟨d', hd', h1, h2, h3⟩
        · exact Or.inr ⟨fun d'' hd'' => hall d'' (Or.inr hd''), hs⟩

/-- **the own entries are exactly the declarations** -/
theorem own_build (ds : List Decl) (hu : Uniq ds) (p : Key) (r : Role) (s : StoreId) :
    own (build ds) p r = some s ↔ ∃ d ∈ ds, d.pfx = p ∧ d.role = r ∧ d.store = s := by
  unfold build
  rw [own_foldl ds [] p r s hu]
  simp [own]

/-- the declarative reading of "longest prefix, independently per role" -/
def Designates (ds : List Decl) (k : Key) (r : Role) (s : StoreId) : Prop :=
  ∃ d ∈ ds, d.role = r ∧ d.store = s ∧ d.pfx.isPrefixOf k = true ∧
    ∀ d' ∈ ds, d'.role = r → d'.pfx.isPrefixOf k = true → d'.pfx.length ≤ d.pfx.length

theorem prefix_eq_of_length {a b k : Key} (ha : a.isPrefixOf k = true) (hb : b.isPrefixOf k = true)
    (hl : a.length = b.length) : a = b := by
  rw [List.isPrefixOf_iff_prefix] at ha hb
  have h1 := List.prefix_iff_eq_take.mp ha
  have h2 := List.prefix_iff_eq_take.mp hb
  rw [h1, h2, hl]

theorem nodup_map_inj {α β : Type} (f : α → β) : ∀ (l : List α), (l.map f).Nodup → ∀ a ∈ l, ∀ b ∈ l, f a = f b → a = b := by
  intro l
  induction l with
  | nil => intro _ a ha; simp at ha
  | cons x r ih =>
    intro hn a ha b hb hf
    simp only [List.map_cons, List.nodup_cons, List.mem_map, not_exists, not_and] at hn
    rcases List.mem_cons.mp ha with rfl | ha' <;> rcases List.mem_cons.mp hb with rfl | hb'
    · rfl
    · exact absurd hf.symm (hn.1 b hb')
    · exact absurd hf (hn.1 a ha')
    · exact ih hn.2 a ha' b hb' hf

theorem designates_functional (ds : List Decl) (hu : Uniq ds) (k : Key) (r : Role) (s s' : StoreId)
    (h : Designates ds k r s) (h' : Designates ds k r s') : s = s' := by
  obtain ⟨d, hd, hr, hs, hp, hmax⟩ := h
  obtain ⟨d', hd', hr', hs', hp', hmax'⟩ := h'
  have hl : d.pfx.length = d'.pfx.length :=
    Nat.le_antisymm (hmax' d hd hr hp) (hmax d' hd' hr' hp')
  have hpe : d.pfx = d'.pfx := prefix_eq_of_length hp hp' hl
  have : d = d' := by
    unfold Uniq at hu
    exact nodup_map_inj _ ds hu d hd d' hd' (by simp [hpe, hr, hr'])
  subst this
  rw [← hs, ← hs']

theorem resolveRole_sound (ds : List Decl) (hu : Uniq ds) (k : Key) (r : Role) (s : StoreId)
    (h : resolveRole (build ds) k r = some s) : Designates ds k r s := by
  obtain ⟨p, info, hm, hp, hg, hmax⟩ := resolve_longest_prefix_per_role (build ds) k r s h
  have hl := AList.lookup_of_mem (build ds) (wf_build ds) p info hm
  have hown : own (build ds) p r = some s := by unfold own; rw [hl]; exact hg
  obtain ⟨d, hd, h1, h2, h3⟩ := (own_build ds hu p r s).mp hown
  refine ⟨d, hd, h2, h3, by rw [h1]; exact hp, ?_⟩
  intro d' hd' hr' hp'
  have hown' : own (build ds) d'.pfx r = some d'.store := (own_build ds hu _ r _).mpr ⟨d', hd', rfl, hr', rfl⟩
  unfold own at hown'
  cases hlk : AList.lookup (build ds) d'.pfx with
  | none => rw [hlk] at hown'; simp at hown'
  | some qi =>
    rw [hlk] at hown'
    simp only [Option.bind_some] at hown'
    have := hmax d'.pfx qi (AList.mem_of_lookup _ _ _ hlk) hp' (by rw [hown']; rfl)
    rw [h1]; exact this

theorem resolveRole_complete (ds : List Decl) (hu : Uniq ds) (k : Key) (r : Role) (s : StoreId)
    (h : Designates ds k r s) : resolveRole (build ds) k r = some s := by
  obtain ⟨d, hd, hr, hs, hp, _⟩ := h
  -- something is returned: the entry of d's prefix matches and defines the role
  have hown : own (build ds) d.pfx r = some d.store := (own_build ds hu _ r _).mpr ⟨d, hd, rfl, hr, rfl⟩
  unfold own at hown
  cases hlk : AList.lookup (build ds) d.pfx with
  | none => rw [hlk] at hown; simp at hown
  | some qi =>
    rw [hlk] at hown
    simp only [Option.bind_some] at hown
    have hmem : (d.pfx, qi) ∈ matching (build ds) k := (mem_matching _ _ _).mpr ⟨AList.mem_of_lookup _ _ _ hlk, hp⟩
    cases hres : resolveRole (build ds) k r with
    | none =>
      unfold resolveRole at hres
      rw [List.head?_eq_none_iff, List.filterMap_eq_nil_iff] at hres
      have := hres (d.pfx, qi) hmem
      rw [hown] at this; simp at this
    | some s' =>
      have hd' := resolveRole_sound ds hu k r s' hres
      have := designates_functional ds hu k r s s' ⟨d, hd, hr, hs, hp, ‹_›⟩ hd'
      rw [this]

/-- **resolution after any sequence of `add_*` calls is the declared longest prefix per role** -/
theorem resolveRole_build (ds : List Decl) (hu : Uniq ds) (k : Key) (r : Role) (s : StoreId) :
    resolveRole (build ds) k r = some s ↔ Designates ds k r s :=
  ⟨resolveRole_sound ds hu k r s, resolveRole_complete ds hu k r s⟩

/-- **F29 as a theorem: the order of the `add_*` calls does not matter** -/
theorem resolveRole_order_independent (ds ds' : List Decl) (hp : ds.Perm ds') (hu : Uniq ds) (k : Key) (r : Role) :
    resolveRole (build ds) k r = resolveRole (build ds') k r := by
  have hu' : Uniq ds' := by unfold Uniq at *; exact (hp.map _).nodup_iff.mp hu
  have key : ∀ s, resolveRole (build ds) k r = some s ↔ resolveRole (build ds') k r = some s := by
    intro s
    rw [resolveRole_build ds hu, resolveRole_build ds' hu']
    unfold Designates
    constructor
    · rintro ⟨d, hd, h1, h2, h3, h4⟩
      exact ⟨d, hp.mem_iff.mp hd, h1, h2, h3, fun d' hd' => h4 d' (hp.mem_iff.mpr hd')⟩
    · rintro ⟨d, hd, h1, h2, h3, h4⟩
      exact ⟨d, hp.mem_iff.mpr hd, h1, h2, h3, fun d' hd' => h4 d' (hp.mem_iff.mp hd')⟩
  cases h : resolveRole (build ds) k r with
  | none =>
    cases h' : resolveRole (build ds') k r with
    | none => rfl
    | some s => rw [(key s).mpr h'] at h; exact absurd h (by simp)
  | some s => exact ((key s).mp h).symm

/-! non-vacuity: the call order that exposed F29 -/
private def dRoot : Decl := ⟨[], .cache, "K1"⟩
private def dInner : Decl := ⟨["c".toList, "tree".toList, "s".toList], .remote, "R1"⟩
private def dC : Decl := ⟨["c".toList], .cache, "K2"⟩
private def probe : Key := ["c".toList, "tree".toList, "s".toList, "g0".toList]

example : own (build [dRoot, dInner, dC]) dInner.pfx .cache = none := by decide
example : Designates [dRoot, dInner, dC] probe .cache "K2" :=
  ⟨dC, by simp, rfl, rfl, by decide, by
    intro d' hd' hr _
    simp only [List.mem_cons, List.mem_nil_iff, or_false] at hd'
    rcases hd' with rfl | rfl | rfl <;> simp_all [dRoot, dInner, dC]⟩

end DvcData.PushFetch
