import DvcData.Proofs.Sets
import DvcData.Props.C04
/-!
# C12 — status is exact and the remote index never invents objects
-/
namespace DvcData.Status
open DvcData

variable {Oid : Type} [DecidableEq Oid]

/-- the identifiers a request asks about: the request itself, expanded by the listings of its
    directory objects unless `shallow` -/
def Asked (env : Env Oid) (shallow : Bool) (req : List Oid) (x : Oid) : Prop :=
  x ∈ req ∨ (shallow = false ∧ ∃ d ∈ req, env.isDir d = true ∧ ∃ es, env.load d = some es ∧ x ∈ es)

theorem mem_collect (env : Env Oid) (shallow useIndex : Bool) :
    ∀ (req hs : List Oid) (ds : List (Oid × Option (List Oid))) (hashes : List Oid)
      (dirObjs : List (Oid × Option (List Oid))),
      collect env shallow useIndex req hs ds = .ok (hashes, dirObjs) →
      ∀ x, x ∈ hashes ↔ (x ∈ hs ∨ Asked env shallow req x) := by
  intro req
  induction req with
  | nil =>
    intro hs ds hashes dirObjs h x
    simp only [collect] at h
    injection h with h; injection h with h1 h2
    subst h1
    simp [Asked]
  | cons y r ih =>
    intro hs ds hashes dirObjs h x
    simp only [collect] at h
    split at h
    · rename_i hdir
      split at h
      · rename_i hsh
        rw [ih _ _ hashes dirObjs h x, mem_insertSet]
        simp only [Asked, hsh, List.mem_cons]
        constructor
        · rintro ((h1 | rfl) | (h1 | ⟨h2, _⟩))
          · exact Or.inl h1
          · exact Or.inr (Or.inl (Or.inl rfl))
          · exact Or.inr (Or.inl (Or.inr h1))
          · cases h2
        · rintro (h1 | (h1 | h1) | ⟨h2, _⟩)
          · exact Or.inl (Or.inl h1)
          · exact Or.inl (Or.inr h1)
          · exact Or.inr (Or.inl h1)
          · cases h2
      · rename_i hsh
        have hsh' : shallow = false := by simpa using hsh
        split at h
        · cases h
        · rename_i es hl
          rw [ih _ _ hashes dirObjs h x, mem_insertSet, mem_union]
          simp only [Asked, hsh', List.mem_cons, true_and]
          constructor
          · rintro (((h1 | h1) | rfl) | (h1 | ⟨d, hd, hdd, es', hl', hx⟩))
            · exact Or.inl h1
            · exact Or.inr (Or.inr ⟨y, Or.inl rfl, hdir, es, hl, h1⟩)
            · exact Or.inr (Or.inl (Or.inl rfl))
            · exact Or.inr (Or.inl (Or.inr h1))
            · exact Or.inr (Or.inr ⟨d, Or.inr hd, hdd, es', hl', hx⟩)
          · rintro (h1 | (h1 | h1) | ⟨d, hd, hdd, es', hl', hx⟩)
            · exact Or.inl (Or.inl (Or.inl h1))
            · exact Or.inl (Or.inr h1)
            · exact Or.inr (Or.inl h1)
            · rcases hd with rfl | hd
              · rw [hl] at hl'; cases hl'
                exact Or.inl (Or.inl (Or.inr hx))
              · exact Or.inr (Or.inr ⟨d, hd, hdd, es', hl', hx⟩)
    · rename_i hdir
      rw [ih _ _ hashes dirObjs h x, mem_insertSet]
      simp only [Asked, List.mem_cons]
      constructor
      · rintro ((h1 | rfl) | (h1 | ⟨h2, d, hd, hdd, rest⟩))
        · exact Or.inl h1
        · exact Or.inr (Or.inl (Or.inl rfl))
        · exact Or.inr (Or.inl (Or.inr h1))
        · exact Or.inr (Or.inr ⟨h2, d, Or.inr hd, hdd, rest⟩)
      · rintro (h1 | (h1 | h1) | ⟨h2, d, hd, hdd, rest⟩)
        · exact Or.inl (Or.inl h1)
        · exact Or.inl (Or.inr h1)
        · exact Or.inr (Or.inl h1)
        · rcases hd with rfl | hd
          · exact absurd hdd hdir
          · exact Or.inr (Or.inr ⟨h2, d, hd, hdd, rest⟩)

/-- **status without an index is exact**: `exists` = asked ∩ store, `missing` = asked \ store -/
theorem status_exact (env : Env Oid) (store : List Oid) (shallow : Bool) (req : List Oid)
    (o : StatusOut Oid) (h : status env store none shallow req = .ok o) (x : Oid) :
    (x ∈ o.exist ↔ (Asked env shallow req x ∧ x ∈ store)) ∧
    (x ∈ o.missing ↔ (Asked env shallow req x ∧ x ∉ store)) := by
  unfold status at h
  split at h
  · cases h
  · rename_i hashes dirObjs hc
    have hm := mem_collect env shallow false req [] [] hashes dirObjs (by simpa using hc) x
    simp only [List.not_mem_nil, false_or] at hm
    simp only at h
    injection h with h
    subst h
    simp only [mem_inter, mem_diff, hm]
    constructor
    · trivial
    · constructor
      · rintro ⟨h1, h2⟩; exact ⟨h1, fun hs => h2 ⟨h1, hs⟩⟩
      · rintro ⟨h1, h2⟩; exact ⟨h1, fun hs => h2 hs.2⟩

/-- exists and missing partition what was asked -/
theorem status_partition (env : Env Oid) (store : List Oid) (shallow : Bool) (req : List Oid)
    (o : StatusOut Oid) (h : status env store none shallow req = .ok o) (x : Oid) :
    (Asked env shallow req x ↔ (x ∈ o.exist ∨ x ∈ o.missing)) ∧ ¬ (x ∈ o.exist ∧ x ∈ o.missing) := by
  obtain ⟨h1, h2⟩ := status_exact env store shallow req o h x
  rw [h1, h2]
  constructor
  · constructor
    · intro ha; by_cases hs : x ∈ store
      · exact Or.inl ⟨ha, hs⟩
      · exact Or.inr ⟨ha, hs⟩
    · rintro (h | h) <;> exact h.1
  · rintro ⟨⟨_, hs⟩, ⟨_, hn⟩⟩; exact hn hs

/-- **compare_status is the four-way partition of the two individual answers** (when the
    source is consulted, i.e. something is missing from the destination or `check_deleted`) -/
theorem compare_partition (env : Env Oid) (src dest : List Oid) (shallow : Bool) (req : List Oid)
    (c : Compare Oid) (s d : StatusOut Oid)
    (hd : status env dest none shallow req = .ok d) (hs : status env src none shallow req = .ok s)
    (h : compareStatus env env src dest false none shallow true req = .ok c) (x : Oid) :
    (x ∈ c.ok ↔ (x ∈ s.exist ∧ x ∈ d.exist)) ∧ (x ∈ c.new ↔ (x ∈ s.exist ∧ x ∉ d.exist)) ∧
    (x ∈ c.deleted ↔ (x ∈ d.exist ∧ x ∉ s.exist)) ∧ (x ∈ c.missing ↔ (x ∈ s.missing ∧ x ∈ d.missing)) := by
  unfold compareStatus at h
  simp only [hd, hs, Bool.or_true, if_true, Bool.false_eq_true, if_false] at h
  injection h with h
  subst h
  simp [mem_inter, mem_diff]

/-- in terms of the stores: new = asked, in the source, not in the destination; etc. -/
theorem compare_exact (env : Env Oid) (src dest : List Oid) (shallow : Bool) (req : List Oid)
    (c : Compare Oid) (h : compareStatus env env src dest false none shallow true req = .ok c) (x : Oid) :
    (x ∈ c.ok ↔ (Asked env shallow req x ∧ x ∈ src ∧ x ∈ dest)) ∧
    (x ∈ c.new ↔ (Asked env shallow req x ∧ x ∈ src ∧ x ∉ dest)) ∧
    (x ∈ c.deleted ↔ (Asked env shallow req x ∧ x ∈ dest ∧ x ∉ src)) ∧
    (x ∈ c.missing ↔ (Asked env shallow req x ∧ x ∉ src ∧ x ∉ dest)) := by
  cases hd : status env dest none shallow req with
  | notFound => simp [compareStatus, hd] at h
  | ok d =>
    cases hs : status env src none shallow req with
    | notFound => simp [compareStatus, hd, hs] at h
    | ok s =>
      obtain ⟨p1, p2, p3, p4⟩ := compare_partition env src dest shallow req c s d hd hs h x
      obtain ⟨d1, d2⟩ := status_exact env dest shallow req d hd x
      obtain ⟨s1, s2⟩ := status_exact env src shallow req s hs x
      rw [p1, p2, p3, p4, d1, d2, s1, s2]
      refine ⟨?_, ?_, ?_, ?_⟩
      · constructor
        · rintro ⟨⟨a, b⟩, ⟨_, c⟩⟩; exact ⟨a, b, c⟩
        · rintro ⟨a, b, c⟩; exact ⟨⟨a, b⟩, ⟨a, c⟩⟩
      · constructor
        · rintro ⟨⟨a, b⟩, c⟩; exact ⟨a, b, fun hc => c ⟨a, hc⟩⟩
        · rintro ⟨a, b, c⟩; exact ⟨⟨a, b⟩, fun hc => c hc.2⟩
      · constructor
        · rintro ⟨⟨a, b⟩, c⟩; exact ⟨a, b, fun hc => c ⟨a, hc⟩⟩
        · rintro ⟨a, b, c⟩; exact ⟨⟨a, b⟩, fun hc => c hc.2⟩
      · constructor
        · rintro ⟨⟨a, b⟩, ⟨_, c⟩⟩; exact ⟨a, b, c⟩
        · rintro ⟨a, b, c⟩; exact ⟨⟨a, b⟩, ⟨a, c⟩⟩

end DvcData.Status

/-! ## with a remote index -/
namespace DvcData.Status
open DvcData

variable {Oid : Type} [DecidableEq Oid]

/-- an index is well-typed: what it records as directory is a directory identifier, what it
    records as file is not -/
def IndexWF (env : Env Oid) (i : RIndex Oid) : Prop :=
  (∀ d ∈ i.dirs, env.isDir d = true) ∧ (∀ f ∈ i.files, env.isDir f = false)

/-- every directory recorded by the index is in the store -/
def DirsPresent (store : List Oid) (i : RIndex Oid) : Prop := ∀ d ∈ i.dirs, d ∈ store

/-- directory listings contain file identifiers only -/
def FilesOnly (env : Env Oid) (dirObjs : List (Oid × Option (List Oid))) : Prop :=
  ∀ d es, treeOf env dirObjs d = some es → ∀ f ∈ es, env.isDir f = false

theorem mem_update_keys (i : RIndex Oid) (d : Oid) (fs : List Oid) (x : Oid) :
    x ∈ (i.update d fs).keys → x ∈ i.keys ∨ x = d ∨ x ∈ fs := by
  simp only [RIndex.keys, RIndex.update, List.mem_append, List.mem_filter, mem_union, mem_insertSet]
  rintro (⟨h | h, _⟩ | (⟨h, _⟩ | h))
  · exact Or.inl (Or.inl h)
  · exact Or.inr (Or.inl h)
  · exact Or.inl (Or.inr h)
  · exact Or.inr (Or.inr h)

theorem update_wf (env : Env Oid) (i : RIndex Oid) (d : Oid) (fs : List Oid) (hw : IndexWF env i)
    (hd : env.isDir d = true) (hf : ∀ f ∈ fs, env.isDir f = false) : IndexWF env (i.update d fs) := by
  constructor
  · intro x hx
    simp only [RIndex.update, List.mem_filter, mem_insertSet] at hx
    rcases hx.1 with h | rfl
    · exact hw.1 x h
    · exact hd
  · intro x hx
    simp only [RIndex.update, mem_union, List.mem_filter] at hx
    rcases hx with ⟨h, _⟩ | h
    · exact hw.2 x h
    · exact hf x h

theorem update_dirs_present (store : List Oid) (i : RIndex Oid) (d : Oid) (fs : List Oid)
    (hp : DirsPresent store i) (hd : d ∈ store) : DirsPresent store (i.update d fs) := by
  intro x hx
  simp only [RIndex.update, List.mem_filter, mem_insertSet] at hx
  rcases hx.1 with h | rfl
  · exact hp x h
  · exact hd

theorem validated_props (env : Env Oid) (store : List Oid) (i : RIndex Oid) (hw : IndexWF env i) :
    IndexWF env (validated store i) ∧ DirsPresent store (validated store i) ∧
    (∀ x ∈ (validated store i).keys, x ∈ i.keys) := by
  unfold validated
  split
  · rename_i he
    refine ⟨hw, ?_, fun x h => h⟩
    intro d hd
    apply Classical.byContradiction
    intro hn
    have : d ∈ diff i.dirs (inter i.dirs store) := (mem_diff _ _ _).mpr ⟨hd, fun h => hn ((mem_inter _ _ _).mp h).2⟩
    rw [List.isEmpty_iff.mp he] at this
    simp at this
  · refine ⟨⟨by simp, by simp⟩, by intro d hd; simp at hd, by intro x hx; simp [RIndex.keys] at hx⟩

theorem dirExistsOf_sub (store : List Oid) (i : RIndex Oid) (dirObjs : List (Oid × Option (List Oid))) (d : Oid)
    (h : d ∈ dirExistsOf store i dirObjs) : d ∈ store ∧ d ∈ dirObjs.map (·.1) := by
  simp only [dirExistsOf, mem_union, mem_inter, mem_diff, mem_dedup] at h
  rcases h with ⟨h1, _, h2⟩ | ⟨⟨h1, _⟩, h2⟩
  · exact ⟨h2, h1⟩
  · exact ⟨h2, h1⟩

/-- invariant of the loop of `_indexed_dir_hashes` -/
structure IdhInv (env : Env Oid) (store : List Oid) (i0 : RIndex Oid) (acc : List Oid × RIndex Oid) : Prop where
  wf : IndexWF env acc.2
  present : DirsPresent store acc.2
  assumedDirs : ∀ x ∈ acc.1, env.isDir x = true → x ∈ store
  /-- nothing is invented: every key of the index was already a key, or is a directory that is in
      the store now, or is listed by one -/
  sound : ∀ x ∈ acc.2.keys, x ∈ i0.keys ∨ (x ∈ store ∧ env.isDir x = true) ∨
            ∃ d es, d ∈ store ∧ env.isDir d = true ∧ env.load d = some es ∧ x ∈ es
  /-- what is assumed present is a directory object that is in the store, or is listed by one -/
  assumedSound : ∀ x ∈ acc.1, (x ∈ store ∧ env.isDir x = true) ∨
            ∃ d es, d ∈ store ∧ env.isDir d = true ∧ env.load d = some es ∧ x ∈ es

/-- the trees remembered while collecting are the ones `Tree.load` gives -/
def DirObjsSound (env : Env Oid) (dirObjs : List (Oid × Option (List Oid))) : Prop :=
  ∀ d es, treeOf env dirObjs d = some es → env.load d = some es

theorem idhStep_inv (env : Env Oid) (store : List Oid) (i0 : RIndex Oid)
    (dirObjs : List (Oid × Option (List Oid))) (hfo : FilesOnly env dirObjs) (hso : DirObjsSound env dirObjs)
    (acc : List Oid × RIndex Oid) (d : Oid) (hd : d ∈ store) (hdir : env.isDir d = true)
    (hinv : IdhInv env store i0 acc) : IdhInv env store i0 (idhStep env dirObjs acc d) := by
  unfold idhStep
  split
  · exact hinv
  · rename_i fs ht
    have hfs := hfo d fs ht
    have hload := hso d fs ht
    have hassumed : ∀ x ∈ acc.1 ++ fs ++ [d], env.isDir x = true → x ∈ store := by
      intro x hx hxd
      simp only [List.mem_append, List.mem_singleton] at hx
      rcases hx with (h | h) | rfl
      · exact hinv.assumedDirs x h hxd
      · rw [hfs x h] at hxd; cases hxd
      · exact hd
    have hasound : ∀ x ∈ acc.1 ++ fs ++ [d], (x ∈ store ∧ env.isDir x = true) ∨
        ∃ d es, d ∈ store ∧ env.isDir d = true ∧ env.load d = some es ∧ x ∈ es := by
      intro x hx
      simp only [List.mem_append, List.mem_singleton] at hx
      rcases hx with (h | h) | rfl
      · exact hinv.assumedSound x h
      · exact Or.inr ⟨d, fs, hd, hdir, hload, h⟩
      · exact Or.inl ⟨hd, hdir⟩
    split
    · exact ⟨hinv.wf, hinv.present, hassumed, hinv.sound, hasound⟩
    · refine ⟨update_wf env _ d fs hinv.wf hdir hfs, update_dirs_present store _ d fs hinv.present hd, hassumed, ?_, hasound⟩
      intro x hx
      rcases mem_update_keys _ d fs x hx with h | rfl | h
      · exact hinv.sound x h
      · exact Or.inr (Or.inl ⟨hd, hdir⟩)
      · exact Or.inr (Or.inr ⟨d, fs, hd, hdir, hload, h⟩)

theorem foldl_idh_inv (env : Env Oid) (store : List Oid) (i0 : RIndex Oid)
    (dirObjs : List (Oid × Option (List Oid))) (hfo : FilesOnly env dirObjs) (hso : DirObjsSound env dirObjs) :
    ∀ (ds : List Oid) (acc : List Oid × RIndex Oid), (∀ d ∈ ds, d ∈ store ∧ env.isDir d = true) →
      IdhInv env store i0 acc → IdhInv env store i0 (ds.foldl (idhStep env dirObjs) acc) := by
  intro ds
  induction ds with
  | nil => intro acc _ h; exact h
  | cons d r ih =>
    intro acc hds h
    simp only [List.foldl_cons]
    exact ih _ (fun x hx => hds x (List.mem_cons_of_mem _ hx))
      (idhStep_inv env store i0 dirObjs hfo hso acc d (hds d (by simp)).1 (hds d (by simp)).2 h)

/-- what `_indexed_dir_hashes` returns -/
theorem indexedDirHashes_inv (env : Env Oid) (store : List Oid) (i : RIndex Oid)
    (dirObjs : List (Oid × Option (List Oid))) (hw : IndexWF env i) (hfo : FilesOnly env dirObjs)
    (hso : DirObjsSound env dirObjs) (hdirs : ∀ d ∈ dirObjs.map (·.1), env.isDir d = true) :
    IdhInv env store i (indexedDirHashes env store i dirObjs) := by
  unfold indexedDirHashes
  obtain ⟨v1, v2, v3⟩ := validated_props env store i hw
  apply foldl_idh_inv env store i dirObjs hfo hso
  · intro d hd
    obtain ⟨h1, h2⟩ := dirExistsOf_sub store i dirObjs d hd
    exact ⟨h1, hdirs d h2⟩
  · exact ⟨v1, v2, by intro x hx; simp at hx, fun x hx => Or.inl (v3 x hx), by intro x hx; simp at hx⟩

/-- the same relative to the *validated* index: what the validation kept is the only thing taken on trust -/
theorem indexedDirHashes_inv_validated (env : Env Oid) (store : List Oid) (i : RIndex Oid)
    (dirObjs : List (Oid × Option (List Oid))) (hw : IndexWF env i) (hfo : FilesOnly env dirObjs)
    (hso : DirObjsSound env dirObjs) (hdirs : ∀ d ∈ dirObjs.map (·.1), env.isDir d = true) :
    IdhInv env store (validated store i) (indexedDirHashes env store i dirObjs) := by
  unfold indexedDirHashes
  obtain ⟨v1, v2, _⟩ := validated_props env store i hw
  apply foldl_idh_inv env store (validated store i) dirObjs hfo hso
  · intro d hd
    obtain ⟨h1, h2⟩ := dirExistsOf_sub store i dirObjs d hd
    exact ⟨h1, hdirs d h2⟩
  · exact ⟨v1, v2, by intro x hx; simp at hx, fun x hx => Or.inl hx, by intro x hx; simp at hx⟩

theorem validated_stale (store : List Oid) (i : RIndex Oid) (h : ∃ d ∈ i.dirs, d ∉ store) :
    validated store i = {} := by
  unfold validated
  split
  · rename_i he
    obtain ⟨d, hd, hn⟩ := h
    have : d ∈ diff i.dirs (inter i.dirs store) := (mem_diff _ _ _).mpr ⟨hd, fun h => hn ((mem_inter _ _ _).mp h).2⟩
    rw [List.isEmpty_iff.mp he] at this
    simp at this
  · rfl

end DvcData.Status

namespace DvcData.Status
open DvcData

variable {Oid : Type} [DecidableEq Oid]

/-- listings only contain file identifiers -/
def FilesOnlyEnv (env : Env Oid) : Prop := ∀ d es, env.load d = some es → ∀ f ∈ es, env.isDir f = false

/-- invariant of `collect`'s accumulators when an index is used -/
structure CollInv (env : Env Oid) (hs : List Oid) (ds : List (Oid × Option (List Oid))) : Prop where
  loaded : ∀ p ∈ ds, ∀ es, p.2 = some es → env.load p.1 = some es
  dirs : ∀ p ∈ ds, env.isDir p.1 = true
  covered : ∀ x ∈ hs, env.isDir x = true → x ∈ ds.map (·.1)

theorem collect_inv (env : Env Oid) (hfe : FilesOnlyEnv env) (shallow : Bool) :
    ∀ (req hs : List Oid) (ds : List (Oid × Option (List Oid))) (hashes : List Oid)
      (dirObjs : List (Oid × Option (List Oid))),
      collect env shallow true req hs ds = .ok (hashes, dirObjs) → CollInv env hs ds → CollInv env hashes dirObjs := by
  intro req
  induction req with
  | nil =>
    intro hs ds hashes dirObjs h hinv
    simp only [collect] at h
    injection h with h; injection h with h1 h2
    subst h1; subst h2; exact hinv
  | cons y r ih =>
    intro hs ds hashes dirObjs h hinv
    simp only [collect] at h
    split at h
    · rename_i hdir
      split at h
      · apply ih _ _ hashes dirObjs h
        simp only [if_true]
        refine ⟨?_, ?_, ?_⟩
        · intro p hp es he
          rcases List.mem_append.mp hp with hp | hp
          · exact hinv.loaded p hp es he
          · simp at hp; subst hp; simp at he
        · intro p hp
          rcases List.mem_append.mp hp with hp | hp
          · exact hinv.dirs p hp
          · simp at hp; subst hp; exact hdir
        · intro x hx hxd
          rcases (mem_insertSet _ _ _).mp hx with hx | rfl
          · simp only [List.map_append, List.mem_append]; exact Or.inl (hinv.covered x hx hxd)
          · simp
      · split at h
        · cases h
        · rename_i es hl
          apply ih _ _ hashes dirObjs h
          simp only [if_true]
          refine ⟨?_, ?_, ?_⟩
          · intro p hp es' he
            rcases List.mem_append.mp hp with hp | hp
            · exact hinv.loaded p hp es' he
            · simp at hp; subst hp; simp at he; subst he; exact hl
          · intro p hp
            rcases List.mem_append.mp hp with hp | hp
            · exact hinv.dirs p hp
            · simp at hp; subst hp; exact hdir
          · intro x hx hxd
            rcases (mem_insertSet _ _ _).mp hx with hx | rfl
            · rcases (mem_union _ _ _).mp hx with hx | hx
              · simp only [List.map_append, List.mem_append]; exact Or.inl (hinv.covered x hx hxd)
              · rw [hfe y es hl x hx] at hxd; cases hxd
            · simp
    · rename_i hdir
      apply ih _ _ hashes dirObjs h
      refine ⟨hinv.loaded, hinv.dirs, ?_⟩
      intro x hx hxd
      rcases (mem_insertSet _ _ _).mp hx with hx | rfl
      · exact hinv.covered x hx hxd
      · exact absurd hxd hdir

theorem treeOf_sound (env : Env Oid) (ds : List (Oid × Option (List Oid)))
    (hl : ∀ p ∈ ds, ∀ es, p.2 = some es → env.load p.1 = some es) : DirObjsSound env ds := by
  intro d es h
  unfold treeOf at h
  split at h
  · rename_i es' hf
    injection h with h; subst h
    cases hfind : ds.find? (·.1 = d) with
    | none => simp [hfind] at hf
    | some p =>
      simp only [hfind, Option.bind_some] at hf
      have hp := List.mem_of_find?_eq_some hfind
      have hk := List.find?_some hfind
      simp at hk
      rw [← hk]; exact hl p hp _ hf
  · exact h

theorem tail_exist (ex1 keys rest1 store : List Oid) (x : Oid)
    (h : x ∈ union (if rest1.isEmpty then ex1 else union ex1 (inter rest1 keys))
          (inter (diff rest1 (if rest1.isEmpty then ex1 else union ex1 (inter rest1 keys))) store)) :
    x ∈ ex1 ∨ (x ∈ rest1 ∧ x ∈ keys) ∨ (x ∈ rest1 ∧ x ∈ store) := by
  by_cases hr : rest1.isEmpty = true
  · simp only [hr, if_true, mem_union, mem_inter, mem_diff] at h
    rcases h with h | h
    · exact Or.inl h
    · exact Or.inr (Or.inr ⟨h.1.1, h.2⟩)
  · simp only [hr, Bool.false_eq_true, if_false, mem_union, mem_inter, mem_diff] at h
    rcases h with (h | h) | h
    · exact Or.inl h
    · exact Or.inr (Or.inl h)
    · exact Or.inr (Or.inr ⟨h.1.1, h.2⟩)

/-- **with a remote index, a directory object is reported as existing only if it is in the
    store at query time; the index stays well-typed, never invents an identifier, and after any
    non-empty query - whether or not it names a directory - every directory it records is in the store** -/
theorem status_index_sound (env : Env Oid) (hfe : FilesOnlyEnv env) (store : List Oid) (idx : RIndex Oid)
    (hw : IndexWF env idx) (shallow : Bool) (req : List Oid) (o : StatusOut Oid)
    (h : status env store (some idx) shallow req = .ok o) :
    (∀ x ∈ o.exist, env.isDir x = true → x ∈ store) ∧
    ∃ idx', o.index = some idx' ∧ IndexWF env idx' ∧
      (∀ x ∈ idx'.keys, x ∈ idx.keys ∨ (x ∈ store ∧ env.isDir x = true) ∨
          ∃ d es, d ∈ store ∧ env.isDir d = true ∧ env.load d = some es ∧ x ∈ es) ∧
      (req ≠ [] → DirsPresent store idx') := by
  unfold status at h
  split at h
  · cases h
  · rename_i hashes dirObjs hc
    simp only [Option.isSome_some] at hc
    have hinv := collect_inv env hfe shallow req [] [] hashes dirObjs hc
      ⟨by intro p hp; simp at hp, by intro p hp; simp at hp, by intro x hx; simp at hx⟩
    have hmem := mem_collect env shallow true req [] [] hashes dirObjs hc
    have hso := treeOf_sound env dirObjs hinv.loaded
    have hfo : FilesOnly env dirObjs := fun d es ht => hfe d es (hso d es ht)
    have hdirs : ∀ d ∈ dirObjs.map (·.1), env.isDir d = true := by
      intro d hd
      obtain ⟨p, hp, rfl⟩ := List.mem_map.mp hd
      exact hinv.dirs p hp
    have hI := indexedDirHashes_inv env store idx dirObjs hw hfo hso hdirs
    simp only at h
    split at h
    · -- nothing asked
      injection h with h; subst h
      refine ⟨by intro x hx; simp at hx, idx, rfl, hw, fun x hx => Or.inl hx, ?_⟩
      intro hne
      rename_i he
      obtain ⟨d, hd⟩ := List.exists_mem_of_ne_nil req hne
      have : d ∈ hashes := (hmem d).mpr (Or.inr (Or.inl hd))
      rw [List.isEmpty_iff.mp he] at this; simp at this
    · -- the index is validated whatever the request names (repaired code: also for a request of files only)
      · injection h with h; subst h
        refine ⟨?_, _, rfl, hI.wf, hI.sound, fun _ => hI.present⟩
        intro x hx hxd
        have key : ∀ y, y ∈ (indexedDirHashes env store idx dirObjs).2.keys → env.isDir y = true → y ∈ store := by
          intro y hy hyd
          simp only [RIndex.keys, List.mem_append] at hy
          rcases hy with hy | hy
          · exact hI.present y hy
          · rw [hI.wf.2 y hy] at hyd; cases hyd
        rcases tail_exist _ _ _ _ x hx with h1 | h1 | h1
        · exact hI.assumedDirs x ((mem_inter _ _ _).mp h1).2 hxd
        · exact key x h1.2 hxd
        · exact h1.2

/-- **a stale index is never trusted** (the repaired `status`): when a directory object the index records is gone from
    the store, then - whatever the request names, directories or files only - every identifier reported as existing
    is in the store or is listed by a directory object that is in the store; nothing is vouched for by the index. -/
theorem status_stale_index_not_trusted (env : Env Oid) (hfe : FilesOnlyEnv env) (store : List Oid) (idx : RIndex Oid)
    (hw : IndexWF env idx) (shallow : Bool) (req : List Oid) (o : StatusOut Oid)
    (h : status env store (some idx) shallow req = .ok o) (hstale : ∃ d ∈ idx.dirs, d ∉ store) :
    ∀ x ∈ o.exist, x ∈ store ∨ ∃ d es, d ∈ store ∧ env.isDir d = true ∧ env.load d = some es ∧ x ∈ es := by
  unfold status at h
  split at h
  · cases h
  · rename_i hashes dirObjs hc
    simp only [Option.isSome_some] at hc
    have hinv := collect_inv env hfe shallow req [] [] hashes dirObjs hc
      ⟨by intro p hp; simp at hp, by intro p hp; simp at hp, by intro x hx; simp at hx⟩
    have hso := treeOf_sound env dirObjs hinv.loaded
    have hfo : FilesOnly env dirObjs := fun d es ht => hfe d es (hso d es ht)
    have hdirs : ∀ d ∈ dirObjs.map (·.1), env.isDir d = true := by
      intro d hd
      obtain ⟨p, hp, rfl⟩ := List.mem_map.mp hd
      exact hinv.dirs p hp
    have hI := indexedDirHashes_inv_validated env store idx dirObjs hw hfo hso hdirs
    rw [validated_stale store idx hstale] at hI
    simp only at h
    split at h
    · injection h with h; subst h
      intro x hx; simp at hx
    · injection h with h; subst h
      intro x hx
      rcases tail_exist _ _ _ _ x hx with h1 | h1 | h1
      · rcases hI.assumedSound x ((mem_inter _ _ _).mp h1).2 with h2 | h2
        · exact Or.inl h2.1
        · exact Or.inr h2
      · rcases hI.sound x h1.2 with h2 | h2 | h2
        · simp [RIndex.keys] at h2
        · exact Or.inl h2.1
        · exact Or.inr h2
      · exact Or.inl h1.2

/-- the hypotheses are met: an index that still records directory `10` (and its file `1`) after the store lost both;
    a request naming the file only is answered "missing" by the repaired `status` (the unrepaired one answered "exists") -/
example :
    let env : Env Nat := { isDir := fun o => decide (o ≥ 10), load := fun o => if o = 10 then some [1] else none }
    let idx : RIndex Nat := { dirs := [10], files := [1] }
    (∃ d ∈ idx.dirs, d ∉ ([] : List Nat)) ∧
    status env [] (some idx) true [1] = .ok { exist := [], missing := [1], index := some {} } := by
  refine ⟨⟨10, by simp, by simp⟩, ?_⟩
  rfl

end DvcData.Status

namespace DvcData.Transfer
open DvcData Status

variable {Oid : Type} [DecidableEq Oid]

theorem stepDir_okDirs (cx : Ctx Oid) (s : St Oid) (d : Oid) (x : Oid) (h : x ∈ (stepDir cx s d).okDirs) :
    x ∈ s.okDirs ∨ (x = d ∧ d ∈ (stepDir cx s d).dest) := by
  unfold stepDir at h ⊢
  simp only at h ⊢
  split
  · rename_i hc; simp only [hc, if_true] at h; exact Or.inl h
  · rename_i hc
    simp only [hc, if_false] at h
    split
    · rename_i hc2; simp only [hc2, if_true] at h; exact Or.inl h
    · rename_i hc2
      simp only [hc2, Bool.false_eq_true, if_false] at h
      split
      · rename_i hc3; simp only [hc3, if_true] at h; exact Or.inl h
      · rename_i hc3
        simp only [hc3, Bool.false_eq_true, if_false, List.mem_append, List.mem_singleton] at h
        rcases h with h | h
        · exact Or.inl h
        · exact Or.inr ⟨h, by simp⟩

theorem foldl_okDirs (cx : Ctx Oid) : ∀ (dirs : List Oid) (s : St Oid) (x : Oid),
    x ∈ (dirs.foldl (stepDir cx) s).okDirs → x ∈ s.okDirs ∨ x ∈ (dirs.foldl (stepDir cx) s).dest := by
  intro dirs
  induction dirs with
  | nil => intro s x h; exact Or.inl h
  | cons d r ih =>
    intro s x h
    simp only [List.foldl_cons] at h ⊢
    rcases ih _ x h with h' | h'
    · rcases stepDir_okDirs cx s d x h' with h'' | ⟨rfl, h''⟩
      · exact Or.inl h''
      · right
        have : ∀ (ds : List Oid) (t : St Oid), x ∈ t.dest → x ∈ (ds.foldl (stepDir cx) t).dest := by
          intro ds
          induction ds with
          | nil => intro t ht; exact ht
          | cons e es ihh => intro t ht; simp only [List.foldl_cons]; exact ihh _ (stepDir_dest_mono cx t e x ht)
        exact this r _ h''
    · exact Or.inr h'

theorem doTransfer_okDirs (cx : Ctx Oid) (s : St Oid) (dirs : List Oid) (x : Oid)
    (h : x ∈ (doTransfer cx s dirs).okDirs) : x ∈ s.okDirs ∨ x ∈ (doTransfer cx s dirs).dest := by
  unfold doTransfer at h ⊢
  simp only at h ⊢
  rcases foldl_okDirs cx dirs s x h with h' | h'
  · exact Or.inl h'
  · exact Or.inr (addAll_mono cx _ _ x h')

theorem indexDirs_sound (cx : Ctx Oid) : ∀ (ds : List Oid) (i : RIndex Oid) (x : Oid),
    x ∈ (indexDirs cx i ds).keys → x ∈ i.keys ∨ x ∈ ds ∨ ∃ d ∈ ds, x ∈ cx.L d := by
  intro ds
  induction ds with
  | nil => intro i x h; exact Or.inl h
  | cons d r ih =>
    intro i x h
    simp only [indexDirs, List.foldl_cons] at h
    rcases ih (i.update d (cx.L d)) x h with h' | h' | ⟨e, he, hx⟩
    · rcases mem_update_keys i d (cx.L d) x h' with h'' | rfl | h''
      · exact Or.inl h''
      · exact Or.inr (Or.inl (by simp))
      · exact Or.inr (Or.inr ⟨d, by simp, h''⟩)
    · exact Or.inr (Or.inl (List.mem_cons_of_mem _ h'))
    · exact Or.inr (Or.inr ⟨e, List.mem_cons_of_mem _ he, hx⟩)

/-- **a transfer never makes the index invent an object**: every identifier the destination
    index holds afterwards was held before, or is a directory object that is in the destination
    now, or is listed by one. (The index is only touched when nothing failed.) -/
theorem transfer_index_sound (cx : Ctx Oid) (dest0 new dirOrder : List Oid) (idx : RIndex Oid) (x : Oid)
    (i' : RIndex Oid) (hi : (transferWith cx dest0 new (some idx) dirOrder).destIndex = some i')
    (hx : x ∈ i'.keys) :
    x ∈ idx.keys ∨ x ∈ (transferWith cx dest0 new (some idx) dirOrder).dest ∨
      ∃ d ∈ (transferWith cx dest0 new (some idx) dirOrder).dest, x ∈ cx.L d := by
  unfold transferWith at hi ⊢
  split at hi
  · simp only [Option.some.injEq] at hi; subst hi; exact Or.inl hx
  · rename_i hne
    simp only [hne, if_false] at hi ⊢
    split at hi
    · rename_i hfe
      simp only [hfe, if_true]
      simp only [Option.map_some, Option.some.injEq] at hi
      subst hi
      have hok := doTransfer_okDirs cx { dest := dest0, pending := new.filter fun x => !cx.isDir x, failed := [] } dirOrder
      rcases indexDirs_sound cx _ idx x hx with h | h | ⟨d, hd, hxd⟩
      · exact Or.inl h
      · rcases hok x h with h' | h'
        · simp at h'
        · exact Or.inr (Or.inl h')
      · rcases hok d hd with h' | h'
        · simp at h'
        · exact Or.inr (Or.inr ⟨d, h', hxd⟩)
    · rename_i hfe
      simp only [hfe, if_false]
      simp only [Option.some.injEq] at hi; subst hi; exact Or.inl hx


/-! ## histories: transfers with failures, external deletions and additions, status queries -/

theorem foldl_okDirs_sub (cx : Ctx Oid) : ∀ (dirs : List Oid) (s : St Oid) (x : Oid),
    x ∈ (dirs.foldl (stepDir cx) s).okDirs → x ∈ s.okDirs ∨ x ∈ dirs := by
  intro dirs
  induction dirs with
  | nil => intro s x h; exact Or.inl h
  | cons d r ih =>
    intro s x h
    simp only [List.foldl_cons] at h
    rcases ih _ x h with h' | h'
    · rcases stepDir_okDirs cx s d x h' with h'' | ⟨rfl, _⟩
      · exact Or.inl h''
      · exact Or.inr (by simp)
    · exact Or.inr (List.mem_cons_of_mem _ h')

theorem indexDirs_wf (cx : Ctx Oid) (env : Env Oid) (henv : env.isDir = cx.isDir)
    (hL : ∀ d f, f ∈ cx.L d → cx.isDir f = false) : ∀ (ds : List Oid) (i : RIndex Oid),
    IndexWF env i → (∀ d ∈ ds, cx.isDir d = true) → IndexWF env (indexDirs cx i ds) := by
  intro ds
  induction ds with
  | nil => intro i hw _; exact hw
  | cons d r ih =>
    intro i hw hd
    simp only [indexDirs, List.foldl_cons]
    apply ih
    · apply update_wf env i d (cx.L d) hw
      · rw [henv]; exact hd d (by simp)
      · intro f hf; rw [henv]; exact hL d f hf
    · intro e he; exact hd e (List.mem_cons_of_mem _ he)

/-- the world of a history: the remote store, the index kept for it, and the history variable
    `ever` = every identifier that was in the store at some point -/
structure World (Oid : Type) where
  store : List Oid
  idx : RIndex Oid
  ever : List Oid

inductive HOp (Oid : Type)
  /-- `status(remote, req, index=idx)`; `loadable d` = the directory object can be loaded from the cache -/
  | query (shallow : Bool) (req : List Oid) (loadable : Oid → Bool)
  /-- `transfer(..., dest_index=idx)` of the new objects `new`, directories in order `dirOrder`, with failing uploads -/
  | xfer (new dirOrder missing : List Oid) (fails : Oid → Bool)
  /-- somebody deletes an object from the remote behind the index's back -/
  | del (x : Oid)
  /-- somebody else puts an object there -/
  | extAdd (x : Oid)

variable (L : Oid → List Oid) (isDir : Oid → Bool)

def envOf (loadable : Oid → Bool) : Env Oid :=
  { isDir := isDir, load := fun d => if loadable d then some (L d) else none }

def stepH (w : World Oid) : HOp Oid → World Oid
  | .query sh req ld =>
    match status (envOf L isDir ld) w.store (some w.idx) sh req with
    | .ok o => (match o.index with | some i => { w with idx := i } | none => w)
    | .notFound => w
  | .xfer new order missing fails =>
    let r := transferWith ⟨L, isDir, fails, missing⟩ w.store new (some w.idx) order
    { store := r.dest, idx := (match r.destIndex with | some i => i | none => w.idx), ever := w.ever ++ r.dest }
  | .del x => { w with store := w.store.filter (· ≠ x) }
  | .extAdd x => { w with store := x :: w.store, ever := x :: w.ever }

def runH (w : World Oid) (ops : List (HOp Oid)) : World Oid := ops.foldl (stepH L isDir) w

/-- transfers process directory identifiers in their per-directory loop -/
def HOp.ok : HOp Oid → Prop
  | .xfer _ order _ _ => ∀ d ∈ order, isDir d = true
  | _ => True

/-- **the index never invents an object**: whatever it holds was in the store at some point of
    the history, or is listed by a directory object that was -/
structure HInv (w : World Oid) : Prop where
  noInvent : ∀ x ∈ w.idx.keys, x ∈ w.ever ∨ ∃ d ∈ w.ever, x ∈ L d
  storeEver : ∀ x ∈ w.store, x ∈ w.ever
  wf : IndexWF (envOf L isDir fun _ => true) w.idx

theorem transferWith_index_wf (hL : ∀ d f, f ∈ L d → isDir f = false) (dest0 new order missing : List Oid)
    (fails : Oid → Bool) (idx i' : RIndex Oid) (hw : IndexWF (envOf L isDir fun _ => true) idx)
    (hord : ∀ d ∈ order, isDir d = true)
    (hi : (transferWith ⟨L, isDir, fails, missing⟩ dest0 new (some idx) order).destIndex = some i') :
    IndexWF (envOf L isDir fun _ => true) i' := by
  unfold transferWith at hi
  split at hi
  · simp only [Option.some.injEq] at hi; subst hi; exact hw
  · simp only at hi
    split at hi
    · simp only [Option.map_some, Option.some.injEq] at hi
      subst hi
      apply indexDirs_wf ⟨L, isDir, fails, missing⟩ (envOf L isDir fun _ => true) rfl hL _ _ hw
      intro d hd
      have : d ∈ ([] : List Oid) ∨ d ∈ order := by
        have := foldl_okDirs_sub ⟨L, isDir, fails, missing⟩ order
          { dest := dest0, pending := List.filter (fun x => !isDir x) new, failed := [] } d
        apply this
        simpa [doTransfer] using hd
      rcases this with h | h
      · simp at h
      · exact hord d h
    · simp only [Option.some.injEq] at hi; subst hi; exact hw

theorem stepH_inv (hL : ∀ d f, f ∈ L d → isDir f = false) (w : World Oid) (op : HOp Oid)
    (hop : op.ok isDir) (hi : HInv L isDir w) : HInv L isDir (stepH L isDir w op) := by
  cases op with
  | query sh req ld =>
    simp only [stepH]
    cases hs : status (envOf L isDir ld) w.store (some w.idx) sh req with
    | notFound => exact hi
    | ok o =>
      simp only
      have hfe : FilesOnlyEnv (envOf L isDir ld) := by
        intro d es hl f hf
        simp only [envOf] at hl
        split at hl
        · injection hl with hl; subst hl; exact hL d f hf
        · cases hl
      have hw : IndexWF (envOf L isDir ld) w.idx := hi.wf
      obtain ⟨_, idx', ho, hw', hk, _⟩ := status_index_sound (envOf L isDir ld) hfe w.store w.idx hw sh req o hs
      rw [ho]
      refine ⟨?_, hi.storeEver, hw'⟩
      intro x hx
      rcases hk x hx with h | ⟨h, _⟩ | ⟨d, es, hd, hdd, hl, hxe⟩
      · exact hi.noInvent x h
      · exact Or.inl (hi.storeEver x h)
      · right
        refine ⟨d, hi.storeEver d hd, ?_⟩
        simp only [envOf] at hl
        split at hl
        · injection hl with hl; subst hl; exact hxe
        · cases hl
  | xfer new order missing fails =>
    simp only [stepH]
    cases hdi : (transferWith ⟨L, isDir, fails, missing⟩ w.store new (some w.idx) order).destIndex with
    | none =>
      simp only
      refine ⟨?_, ?_, hi.wf⟩
      · intro x hx
        rcases hi.noInvent x hx with h | ⟨d, hd, h⟩
        · exact Or.inl (List.mem_append_left _ h)
        · exact Or.inr ⟨d, List.mem_append_left _ hd, h⟩
      · intro x hx; exact List.mem_append_right _ hx
    | some i' =>
      simp only
      refine ⟨?_, ?_, ?_⟩
      · intro x hx
        rcases transfer_index_sound ⟨L, isDir, fails, missing⟩ w.store new order w.idx x i' hdi hx with h | h | ⟨d, hd, hxd⟩
        · rcases hi.noInvent x h with h' | ⟨d, hd, h'⟩
          · exact Or.inl (List.mem_append_left _ h')
          · exact Or.inr ⟨d, List.mem_append_left _ hd, h'⟩
        · exact Or.inl (List.mem_append_right _ h)
        · exact Or.inr ⟨d, List.mem_append_right _ hd, hxd⟩
      · intro x hx; exact List.mem_append_right _ hx
      · exact transferWith_index_wf L isDir hL w.store new order missing fails w.idx i' hi.wf hop hdi
  | del x =>
    simp only [stepH]
    exact ⟨hi.noInvent, fun y hy => hi.storeEver y (List.mem_filter.mp hy).1, hi.wf⟩
  | extAdd x =>
    simp only [stepH]
    refine ⟨?_, ?_, hi.wf⟩
    · intro y hy
      rcases hi.noInvent y hy with h | ⟨d, hd, h⟩
      · exact Or.inl (List.mem_cons_of_mem _ h)
      · exact Or.inr ⟨d, List.mem_cons_of_mem _ hd, h⟩
    · intro y hy
      rcases List.mem_cons.mp hy with rfl | h
      · simp
      · exact List.mem_cons_of_mem _ (hi.storeEver y h)

/-- **C12 over histories.** After *any* history of transfers (with any failing uploads, any
    processing order), external deletions and additions, and status queries sharing one index, the
    index holds only identifiers that were in the store at some point of the history or are listed by
    a directory object that was. -/
theorem history_never_invents (hL : ∀ d f, f ∈ L d → isDir f = false) (w : World Oid) (ops : List (HOp Oid))
    (hops : ∀ op ∈ ops, op.ok isDir) (hi : HInv L isDir w) : HInv L isDir (runH L isDir w ops) := by
  unfold runH
  induction ops generalizing w with
  | nil => exact hi
  | cons op r ih =>
    simp only [List.foldl_cons]
    exact ih _ (fun o ho => hops o (List.mem_cons_of_mem _ ho)) (stepH_inv L isDir hL w op (hops op (by simp)) hi)

/-- a fresh index over any store satisfies the history invariant -/
theorem hinv_init (store : List Oid) : HInv L isDir { store := store, idx := {}, ever := store } :=
  ⟨by intro x hx; simp [RIndex.keys] at hx, fun _ h => h, ⟨by simp, by simp⟩⟩

end DvcData.Transfer
