def hello := "world"
