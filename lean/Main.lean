import Lean.Data.Json
import DvcData.Model.Basic
import DvcData.Model.Merge
open Lean DvcData

/-! Line-protocol driver: one JSON request per line on stdin, one JSON answer per line on stdout.
    Every `op` dispatches into the very definitions the theorems in `DvcData/Props` are about. -/

namespace Driver

def str (j : Json) (f : String) : Except String String := do (← j.getObjVal? f).getStr?
def nat (j : Json) (f : String) : Except String Nat := do (← j.getObjVal? f).getNat?
def bool (j : Json) (f : String) : Except String Bool := do (← j.getObjVal? f).getBool?
def arr (j : Json) (f : String) : Except String (Array Json) := do (← j.getObjVal? f).getArr?
def strList (j : Json) (f : String) : Except String (List String) := do
  (← arr j f).toList.mapM (·.getStr?)

def pairList (j : Json) : Except String (List (String × String)) := do
  (← j.getArr?).toList.mapM fun p => do
    match (← p.getArr?).toList with
    | [a, b] => pure (← a.getStr?, ← b.getStr?)
    | _ => throw "pair expected"

def pairsJson (l : List (String × String)) : Json :=
  Json.arr (l.map fun (a, b) => Json.arr #[Json.str a, Json.str b]).toArray

def kindOf (s : String) : Except String Merge.Kind :=
  match s with
  | "add" => pure .add | "remove" => pure .remove | "change" => pure .change
  | _ => throw s!"bad kind {s}"

def opMerge (j : Json) : Except String Json := do
  let allowed ← (← strList j "allowed").mapM kindOf
  let a ← pairList (← j.getObjVal? "a")
  let o ← pairList (← j.getObjVal? "o")
  let t ← pairList (← j.getObjVal? "t")
  match Merge.merge allowed a o t with
  | .ok r => pure (Json.mkObj [("ok", pairsJson r)])
  | .mergeError => pure (Json.mkObj [("err", "MergeError")])

def dispatch (j : Json) : Except String Json := do
  match (← str j "op") with
  | "merge" => opMerge j
  | "ping" => pure (Json.mkObj [("pong", true)])
  | op => throw s!"unknown op {op}"

end Driver

partial def loop (h : IO.FS.Stream) (out : IO.FS.Stream) : IO Unit := do
  let line ← h.getLine
  if line.isEmpty then return ()
  let ans := match Json.parse line with
    | .ok j => match Driver.dispatch j with
      | .ok r => r
      | .error e => Json.mkObj [("bad-op", e)]
    | .error e => Json.mkObj [("bad-op", s!"parse: {e}")]
  out.putStrLn ans.compress
  loop h out

def main : IO Unit := do
  let out ← IO.getStdout
  loop (← IO.getStdin) out
  out.flush
