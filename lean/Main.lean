import Lean.Data.Json
import DvcData.Model.Basic
import DvcData.Model.Merge
import DvcData.Model.Md5
import DvcData.Model.Hash
open Lean DvcData

/-! Line-protocol driver: one JSON request per line on stdin, one JSON answer per line on stdout.
    Every `op` dispatches into the very definitions the theorems in `DvcData/Props` are about. -/

namespace Driver

def str (j : Json) (f : String) : Except String String := do (← j.getObjVal? f).getStr?
def nat (j : Json) (f : String) : Except String Nat := do (← j.getObjVal? f).getNat?
def bool (j : Json) (f : String) : Except String Bool := do (← j.getObjVal? f).getBool?
def arr (j : Json) (f : String) : Except String (Array Json) := do (← j.getObjVal? f).getArr?
def strList (j : Json) (f : String) : Except String (List String) := do
  (← arr j f).toList.mapM (·.getStr?)

def pairList (j : Json) : Except String (List (String × String)) := do
  (← j.getArr?).toList.mapM fun p => do
    match (← p.getArr?).toList with
    | [a, b] => pure (← a.getStr?, ← b.getStr?)
    | _ => throw "pair expected"

def pairsJson (l : List (String × String)) : Json :=
  Json.arr (l.map fun (a, b) => Json.arr #[Json.str a, Json.str b]).toArray

def hexVal (c : Char) : Except String Nat :=
  let n := c.toNat
  if 48 ≤ n ∧ n ≤ 57 then pure (n - 48)
  else if 97 ≤ n ∧ n ≤ 102 then pure (n - 87)
  else throw "bad hex"

def unhex (s : String) : Except String (List UInt8) := do
  let rec go : List Char → List UInt8 → Except String (List UInt8)
    | [], acc => pure acc.reverse
    | [_], _ => throw "odd hex"
    | a :: b :: r, acc => do go r (UInt8.ofNat ((← hexVal a) * 16 + (← hexVal b)) :: acc)
  go s.toList []

def hexDigit (n : Nat) : Char := if n < 10 then Char.ofNat (48+n) else Char.ofNat (87+n)

def hex (b : List UInt8) : String :=
  String.mk (b.flatMap fun x => [hexDigit (x.toNat / 16), hexDigit (x.toNat % 16)])

def md5Of (b : List UInt8) : String := Md5.hex (ByteArray.mk b.toArray)

def hexList (j : Json) (f : String) : Except String (List (List UInt8)) := do
  (← strList j f).mapM unhex

def bits (l : List Bool) : String := String.mk (l.map fun b => if b then '1' else '0')

def opHashStream (j : Json) : Except String Json := do
  let name ← str j "name"
  let cs ← hexList j "chunks"
  let s := Hash.runStream name cs
  pure (Json.mkObj [("fed", hex s.fed), ("total", s.total), ("md5", md5Of s.fed),
    ("passed", Json.arr (s.passed.map (fun c => Json.str (hex c))).toArray)])

def opIsTextTable (j : Json) : Except String Json := do
  let m ← nat j "maxlen"
  let rows := (List.range m).flatMap fun l0 =>
    let len := l0 + 1
    (List.range (len + 1)).map fun n =>
      Hash.isTextBlock (List.replicate n (1 : UInt8) ++ List.replicate (len - n) (97 : UInt8))
  pure (Json.mkObj [("table", bits rows)])

def opTextChars (_ : Json) : Except String Json :=
  pure (Json.mkObj [("chars", bits ((List.range 256).map fun n => Hash.isTextChar (UInt8.ofNat n)))])

def opIsTextBlock (j : Json) : Except String Json := do
  let bs ← hexList j "blocks"
  pure (Json.mkObj [("r", bits (bs.map Hash.isTextBlock))])

def opDos2Unix (j : Json) : Except String Json := do
  let bs ← hexList j "data"
  pure (Json.mkObj [("r", Json.arr (bs.map (fun b => Json.str (hex (Hash.dos2unix b)))).toArray),
    ("u2d", Json.arr (bs.map (fun b => Json.str (hex (Hash.unix2dos b)))).toArray)])

def kindOf (s : String) : Except String Merge.Kind :=
  match s with
  | "add" => pure .add | "remove" => pure .remove | "change" => pure .change
  | _ => throw s!"bad kind {s}"

def opMerge (j : Json) : Except String Json := do
  let allowed ← (← strList j "allowed").mapM kindOf
  let a ← pairList (← j.getObjVal? "a")
  let o ← pairList (← j.getObjVal? "o")
  let t ← pairList (← j.getObjVal? "t")
  match Merge.merge allowed a o t with
  | .ok r => pure (Json.mkObj [("ok", pairsJson r)])
  | .mergeError => pure (Json.mkObj [("err", "MergeError")])

def dispatch (j : Json) : Except String Json := do
  match (← str j "op") with
  | "merge" => opMerge j
  | "hashstream" => opHashStream j
  | "istext_table" => opIsTextTable j
  | "textchars" => opTextChars j
  | "istextblock" => opIsTextBlock j
  | "dos2unix" => opDos2Unix j
  | "ping" => pure (Json.mkObj [("pong", true)])
  | op => throw s!"unknown op {op}"

end Driver

partial def loop (h : IO.FS.Stream) (out : IO.FS.Stream) : IO Unit := do
  let line ← h.getLine
  if line.isEmpty then return ()
  let ans := match Json.parse line with
    | .ok j => match Driver.dispatch j with
      | .ok r => r
      | .error e => Json.mkObj [("bad-op", e)]
    | .error e => Json.mkObj [("bad-op", s!"parse: {e}")]
  out.putStrLn ans.compress
  loop h out

def main : IO Unit := do
  let out ← IO.getStdout
  loop (← IO.getStdin) out
  out.flush
