import Lean.Data.Json
import DvcData.Model.Basic
import DvcData.Model.Merge
import DvcData.Model.Md5
import DvcData.Model.Hash
import DvcData.Model.Tree
import DvcData.Model.Serialize
import DvcData.Model.Status
import DvcData.Model.Transfer
import DvcData.Model.TransferR
import DvcData.Model.IndexDiff
import DvcData.Model.IndexCheckout
import DvcData.Model.IndexSave
import DvcData.Model.Staging
import DvcData.Model.Fetch
import DvcData.Model.StoreAdd
import DvcData.Model.LinkRecord
import DvcData.Model.CheckoutNone
import DvcData.Model.FsPath
import DvcData.Model.State
import DvcData.Model.Store
import DvcData.Model.Checkout
import DvcData.Model.Build
import DvcData.Model.IndexLazy
import DvcData.Model.PushFetch
import DvcData.Model.Conc
import DvcData.Model.StoreLayout
import DvcData.Model.IndexUpdate
import DvcData.Model.StorageMap
open Lean DvcData

/-! Line-protocol driver: one JSON request per line on stdin, one JSON answer per line on stdout.
    Every `op` dispatches into the very definitions the theorems in `DvcData/Props` are about. -/

namespace Driver

def str (j : Json) (f : String) : Except String String := do (← j.getObjVal? f).getStr?
def nat (j : Json) (f : String) : Except String Nat := do (← j.getObjVal? f).getNat?
def bool (j : Json) (f : String) : Except String Bool := do (← j.getObjVal? f).getBool?
def arr (j : Json) (f : String) : Except String (Array Json) := do (← j.getObjVal? f).getArr?
def strList (j : Json) (f : String) : Except String (List String) := do
  (← arr j f).toList.mapM (·.getStr?)

def pairList (j : Json) : Except String (List (String × String)) := do
  (← j.getArr?).toList.mapM fun p => do
    match (← p.getArr?).toList with
    | [a, b] => pure (← a.getStr?, ← b.getStr?)
    | _ => throw "pair expected"

def pairsJson (l : List (String × String)) : Json :=
  Json.arr (l.map fun (a, b) => Json.arr #[Json.str a, Json.str b]).toArray

def hexVal (c : Char) : Except String Nat :=
  let n := c.toNat
  if 48 ≤ n ∧ n ≤ 57 then pure (n - 48)
  else if 97 ≤ n ∧ n ≤ 102 then pure (n - 87)
  else throw "bad hex"

def unhex (s : String) : Except String (List UInt8) := do
  let rec go : List Char → List UInt8 → Except String (List UInt8)
    | [], acc => pure acc.reverse
    | [_], _ => throw "odd hex"
    | a :: b :: r, acc => do go r (UInt8.ofNat ((← hexVal a) * 16 + (← hexVal b)) :: acc)
  go s.toList []

def hexDigit (n : Nat) : Char := if n < 10 then Char.ofNat (48+n) else Char.ofNat (87+n)

def hex (b : List UInt8) : String :=
  String.ofList (b.flatMap fun x => [hexDigit (x.toNat / 16), hexDigit (x.toNat % 16)])

def md5Of (b : List UInt8) : String := Md5.hex (ByteArray.mk b.toArray)

def hexList (j : Json) (f : String) : Except String (List (List UInt8)) := do
  (← strList j f).mapM unhex

def bits (l : List Bool) : String := String.ofList (l.map fun b => if b then '1' else '0')

def opHashStream (j : Json) : Except String Json := do
  let name ← str j "name"
  let cs ← hexList j "chunks"
  let s := Hash.runStream name cs
  pure (Json.mkObj [("fed", hex s.fed), ("total", s.total), ("md5", md5Of s.fed),
    ("passed", Json.arr (s.passed.map (fun c => Json.str (hex c))).toArray)])

def opIsTextTable (j : Json) : Except String Json := do
  let m ← nat j "maxlen"
  let rows := (List.range m).flatMap fun l0 =>
    let len := l0 + 1
    (List.range (len + 1)).map fun n =>
      Hash.isTextBlock (List.replicate n (1 : UInt8) ++ List.replicate (len - n) (97 : UInt8))
  pure (Json.mkObj [("table", bits rows)])

def opTextChars (_ : Json) : Except String Json :=
  pure (Json.mkObj [("chars", bits ((List.range 256).map fun n => Hash.isTextChar (UInt8.ofNat n)))])

def opIsTextBlock (j : Json) : Except String Json := do
  let bs ← hexList j "blocks"
  pure (Json.mkObj [("r", bits (bs.map Hash.isTextBlock))])

def opDos2Unix (j : Json) : Except String Json := do
  let bs ← hexList j "data"
  pure (Json.mkObj [("r", Json.arr (bs.map (fun b => Json.str (hex (Hash.dos2unix b)))).toArray),
    ("u2d", Json.arr (bs.map (fun b => Json.str (hex (Hash.unix2dos b)))).toArray)])

/-! ### JSON <-> model values -/
open Json (JVal JObj) in
def jvalOf (j : Lean.Json) : Except String JVal :=
  match j with
  | .str s => pure (.str s.toList)
  | .bool b => pure (.bool b)
  | .null => pure .null
  | .num n => if n.exponent = 0 ∧ n.mantissa ≥ 0 then pure (.int n.mantissa.toNat) else throw "bad num"
  | _ => throw "bad jval"

def jvalTo : Json.JVal → Lean.Json
  | .str s => .str (String.ofList s)
  | .int n => .num n
  | .bool b => .bool b
  | .null => .null

/-- a dict travels as a list of [key, value] pairs so that insertion order is preserved -/
def jobjOf (j : Lean.Json) : Except String Json.JObj := do
  (← j.getArr?).toList.mapM fun p => do
    match (← p.getArr?).toList with
    | [k, v] => pure ((← k.getStr?).toList, ← jvalOf v)
    | _ => throw "pair expected"

def jobjTo (o : Json.JObj) : Lean.Json :=
  Lean.Json.arr (o.map fun p => Lean.Json.arr #[.str (String.ofList p.1), jvalTo p.2]).toArray

def keyOf (j : Lean.Json) : Except String Path.Key := do
  (← j.getArr?).toList.mapM fun p => do pure (← p.getStr?).toList

def keyTo (k : Path.Key) : Lean.Json := Lean.Json.arr (k.map fun p => Lean.Json.str (String.ofList p)).toArray

def optStrOf (j : Lean.Json) (f : String) : Except String (Option (List Char)) :=
  match j.getObjVal? f with
  | .ok (.str s) => pure (some s.toList)
  | .ok .null => pure none
  | .error _ => pure none
  | _ => throw s!"bad field {f}"

def optNatOf (j : Lean.Json) (f : String) : Except String (Option Nat) :=
  match j.getObjVal? f with
  | .ok (.num n) => if n.exponent = 0 ∧ n.mantissa ≥ 0 then pure (some n.mantissa.toNat) else throw "bad num"
  | .ok .null => pure none
  | .error _ => pure none
  | _ => throw s!"bad field {f}"

def boolOf (j : Lean.Json) (f : String) : Bool :=
  match j.getObjVal? f with | .ok (.bool b) => b | _ => false

def metaOf (j : Lean.Json) : Except String (Option MetaInfo.Meta) :=
  match j with
  | .null => pure none
  | j => do
    pure (some { isdir := boolOf j "isdir", size := ← optNatOf j "size", nfiles := ← optNatOf j "nfiles",
                 isexec := boolOf j "isexec", versionId := ← optStrOf j "version_id",
                 etag := ← optStrOf j "etag", checksum := ← optStrOf j "checksum",
                 md5 := ← optStrOf j "md5", inode := ← optNatOf j "inode", mtime := ← optNatOf j "mtime",
                 remote := ← optStrOf j "remote" })

def optS (o : Option (List Char)) : Lean.Json := match o with | some s => .str (String.ofList s) | none => .null
def optN (o : Option Nat) : Lean.Json := match o with | some n => .num n | none => .null

def metaTo : Option MetaInfo.Meta → Lean.Json
  | none => .null
  | some m => Lean.Json.mkObj [("isdir", .bool m.isdir), ("size", optN m.size), ("nfiles", optN m.nfiles),
      ("isexec", .bool m.isexec), ("version_id", optS m.versionId), ("etag", optS m.etag),
      ("checksum", optS m.checksum), ("md5", optS m.md5), ("inode", optN m.inode), ("mtime", optN m.mtime),
      ("remote", optS m.remote)]

def hiOf (j : Lean.Json) : Except String (Option MetaInfo.HashInfo) :=
  match j with
  | .null => pure none
  | j => do pure (some { name := ← optStrOf j "name", value := ← optStrOf j "value" })

def hiTo : Option MetaInfo.HashInfo → Lean.Json
  | none => .null
  | some h => Lean.Json.mkObj [("name", optS h.name), ("value", optS h.value)]

def treeOf (j : Lean.Json) : Except String Tree.Tree := do
  (← j.getArr?).toList.mapM fun e => do
    pure (← keyOf (← e.getObjVal? "key"), (← metaOf (e.getObjVal? "meta" |>.toOption.getD .null),
          ← hiOf (e.getObjVal? "hi" |>.toOption.getD .null)))

def treeTo (t : Tree.Tree) : Lean.Json :=
  Lean.Json.arr (t.map fun e => Lean.Json.mkObj [("key", keyTo e.1), ("meta", metaTo e.2.1), ("hi", hiTo e.2.2)]).toArray

def md5Chars (cs : List Char) : List Char := (Md5.hex (String.ofList cs).toUTF8).toList

def opTreeBytes (j : Lean.Json) : Except String Lean.Json := do
  let t ← treeOf (← j.getObjVal? "entries")
  let w := boolOf j "with_meta"
  let b := Tree.asBytes w t
  pure (Lean.Json.mkObj [("bytes", String.ofList b), ("oid", String.ofList (Tree.digest md5Chars t)),
    ("reparsed_ok", .bool (Json.parseList b == some ((Tree.asList w t).map Json.sortKeys)))])

def opTreeFromList (j : Lean.Json) : Except String Lean.Json := do
  let l ← (← arr j "list").toList.mapM jobjOf
  let hn ← optStrOf j "hash_name"
  match Tree.fromList hn l with
  | some t => pure (Lean.Json.mkObj [("tree", treeTo t)])
  | none => pure (Lean.Json.mkObj [("err", "crash")])

def opTreeParse (j : Lean.Json) : Except String Lean.Json := do
  let b ← str j "bytes"
  match Json.parseList b.toList with
  | some l => pure (Lean.Json.mkObj [("list", Lean.Json.arr (l.map jobjTo).toArray)])
  | none => pure (Lean.Json.mkObj [("err", "parse")])

def opSubtree (j : Lean.Json) : Except String Lean.Json := do
  let t ← treeOf (← j.getObjVal? "entries")
  let p ← keyOf (← j.getObjVal? "prefix")
  let st := Tree.subtree t p
  pure (Lean.Json.mkObj [("tree", treeTo st), ("oid", String.ofList (Tree.digest md5Chars st)),
                         ("filter", treeTo (Tree.filter t p))])

def opEscRange (j : Lean.Json) : Except String Lean.Json := do
  let lo ← nat j "lo"
  let hi ← nat j "hi"
  let cps := (List.range (hi - lo)).map (· + lo) |>.filter fun n => n < 55296 ∨ (57343 < n ∧ n < 1114112)
  pure (Lean.Json.mkObj [("esc", Lean.Json.arr (cps.map fun n => Lean.Json.str (String.ofList (Json.esc [Char.ofNat n]))).toArray)])

def opPath (j : Lean.Json) : Except String Lean.Json := do
  let ks ← (← arr j "keys").toList.mapM keyOf
  let ss ← strList j "strings"
  pure (Lean.Json.mkObj [("joined", Lean.Json.arr (ks.map fun k => Lean.Json.str (String.ofList (Path.joinC k))).toArray),
    ("split", Lean.Json.arr (ss.map fun s => keyTo (Path.splitC s.toList)).toArray)])

def optB (o : Option Bool) : Lean.Json := match o with | some b => .bool b | none => .null

def entryOf (j : Lean.Json) : Except String MetaInfo.Entry := do
  let loaded := match j.getObjVal? "loaded" with | .ok (.bool b) => some b | _ => none
  pure { mt := ← metaOf (j.getObjVal? "meta" |>.toOption.getD .null),
         hashInfo := ← hiOf (j.getObjVal? "hi" |>.toOption.getD .null), loaded }

def entryTo (e : MetaInfo.Entry) : Lean.Json :=
  Lean.Json.mkObj [("meta", metaTo e.mt), ("hi", hiTo e.hashInfo), ("loaded", optB e.loaded)]

def optObj (o : Option Json.JObj) : Lean.Json := match o with | some d => jobjTo d | none => .null

def entryDictTo (d : MetaInfo.EntryDict) : Lean.Json :=
  Lean.Json.mkObj [("meta", optObj d.mt), ("hash_info", optObj d.hashInfo), ("loaded", optB d.loaded)]

def projTo (e : MetaInfo.Entry) : Lean.Json :=
  let p := e.proj
  Lean.Json.mkObj [("meta", jobjTo p.1), ("hash_info", jobjTo p.2.1), ("loaded", optB p.2.2)]

/-- to_dict / from_dict(to_dict) of entries, and the '/'-joined index round trip -/
def opEntries (j : Lean.Json) : Except String Lean.Json := do
  let es ← (← arr j "entries").toList.mapM fun e => do
    pure (← keyOf (← e.getObjVal? "key"), ← entryOf e)
  let dicts := es.map fun p => entryDictTo p.2.toDict
  let back := es.map fun p => match MetaInfo.Entry.fromDict p.2.toDict with
    | some e => entryTo e | none => Lean.Json.str "crash"
  let rt := match Serialize.readJoined (Serialize.writeJoined es) with
    | some idx => Lean.Json.arr (idx.map fun p => Lean.Json.mkObj [("key", keyTo p.1), ("proj", projTo p.2)]).toArray
    | none => Lean.Json.str "crash"
  let rtT := match Serialize.readTrie (Serialize.writeTrie es) with
    | some idx => Lean.Json.arr (idx.map fun p => Lean.Json.mkObj [("key", keyTo p.1), ("proj", projTo p.2)]).toArray
    | none => Lean.Json.str "crash"
  pure (Lean.Json.mkObj [("to_dict", Lean.Json.arr dicts.toArray), ("back", Lean.Json.arr back.toArray),
    ("proj", Lean.Json.arr (es.map fun p => projTo p.2).toArray), ("joined", rt), ("trie", rtT)])

/-! ### status / transfer / gc over string identifiers -/

def strArr (l : List String) : Lean.Json := Lean.Json.arr (l.map Lean.Json.str).toArray

def isDirStr (s : String) : Bool := s.endsWith ".dir"

/-- "L": [[dir, [entries...]], ...] -/
def listingOf (j : Lean.Json) : Except String (List (String × List String)) := do
  (← arr j "L").toList.mapM fun p => do
    match (← p.getArr?).toList with
    | [d, es] => pure (← d.getStr?, ← (← es.getArr?).toList.mapM (·.getStr?))
    | _ => throw "bad listing"

def lookupL (l : List (String × List String)) (d : String) : Option (List String) :=
  (l.find? (·.1 = d)).map (·.2)

def rindexOf (j : Lean.Json) (f : String) : Except String (Option (Status.RIndex String)) :=
  match j.getObjVal? f with
  | .ok .null => pure none
  | .error _ => pure none
  | .ok o => do pure (some { dirs := ← strList o "dirs", files := ← strList o "files" })

def rindexTo : Option (Status.RIndex String) → Lean.Json
  | none => .null
  | some i => Lean.Json.mkObj [("dirs", strArr i.dirs), ("files", strArr i.files)]

/-- an environment whose trees are loadable iff the directory object is in `cache` -/
def envOf (l : List (String × List String)) (cache : List String) : Status.Env String :=
  { isDir := isDirStr, load := fun d => if d ∈ cache then lookupL l d else none }

def opStatus (j : Lean.Json) : Except String Lean.Json := do
  let l ← listingOf j
  let store ← strList j "store"
  let cache ← strList j "cache"
  let req ← strList j "req"
  let idx ← rindexOf j "index"
  match Status.status (envOf l cache) store idx (boolOf j "shallow") req with
  | .notFound => pure (Lean.Json.mkObj [("err", "FileNotFoundError")])
  | .ok o => pure (Lean.Json.mkObj [("exists", strArr o.exist), ("missing", strArr o.missing), ("index", rindexTo o.index)])

def opCompare (j : Lean.Json) : Except String Lean.Json := do
  let l ← listingOf j
  let src ← strList j "src"
  let dest ← strList j "dest"
  let req ← strList j "req"
  let idx ← rindexOf j "index"
  match Status.compareStatus (envOf l src) (envOf l src) src dest false idx (boolOf j "shallow") (boolOf j "check_deleted") req with
  | .notFound => pure (Lean.Json.mkObj [("err", "FileNotFoundError")])
  | .ok c => pure (Lean.Json.mkObj [("ok", strArr c.ok), ("missing", strArr c.missing), ("new", strArr c.new),
      ("deleted", strArr c.deleted), ("index", rindexTo c.destIndex)])

def opTransfer (j : Lean.Json) : Except String Lean.Json := do
  let l ← listingOf j
  let src ← strList j "src"
  let dest ← strList j "dest"
  let req ← strList j "req"
  let fails ← strList j "fails"
  let order ← strList j "dir_order"
  let idx ← rindexOf j "index"
  match Status.compareStatus (envOf l src) (envOf l src) src dest false idx (boolOf j "shallow") false req with
  | .notFound => pure (Lean.Json.mkObj [("err", "FileNotFoundError")])
  | .ok c =>
    let cx : Transfer.Ctx String :=
      { L := fun d => (lookupL l d).getD [], isDir := isDirStr, fails := fun x => x ∈ fails, missing := c.missing }
    let newDirs := c.new.filter isDirStr
    -- processing order: the order observed on the implementation, completed by the remaining new dirs
    let dirOrder := (order.filter (· ∈ newDirs)) ++ newDirs.filter (· ∉ order)
    -- new directory objects whose listing cannot be read at transfer time: the transfer gives up (no result)
    let unreadable := (strList j "unreadable").toOption.getD []
    let files := c.new.filter fun x => !isDirStr x
    if (Transfer.doTransferR cx (fun d => d ∉ unreadable) { dest := dest, pending := files, failed := [] } dirOrder).isNone then
      return Lean.Json.mkObj [("gave_up", .bool true),
        ("dest", strArr (Transfer.destAtGiveUp cx (fun d => d ∉ unreadable) dirOrder { dest := dest, pending := files, failed := [] }))]
    let r := Transfer.transferWith cx dest c.new c.destIndex dirOrder
    pure (Lean.Json.mkObj [("transferred", strArr r.transferred), ("failed", strArr r.failed),
      ("dest", strArr r.dest), ("index", rindexTo r.destIndex), ("new", strArr c.new), ("missing", strArr c.missing),
      ("src_index_cleared", .bool r.srcIndexCleared)])

def opGc (j : Lean.Json) : Except String Lean.Json := do
  let l ← listingOf j
  let store ← strList j "store"
  let cache ← strList j "cache"
  let hn ← str j "hash_name"
  let used ← (← arr j "used").toList.mapM fun p => do
    match (← p.getArr?).toList with
    | [n, v] => pure (← n.getStr?, ← v.getStr?)
    | _ => throw "bad used"
  let extras := (strList j "unpacked").toOption.getD []
  let left := Status.gcLeftovers (envOf l cache) hn (boolOf j "read_only") (boolOf j "shallow") (boolOf j "dry") store used extras
  match Status.gc (envOf l cache) hn (boolOf j "read_only") (boolOf j "shallow") (boolOf j "dry") store used with
  | .permission => pure (Lean.Json.mkObj [("err", "ObjectDBPermissionError"), ("unpacked", strArr left)])
  | .notFound => pure (Lean.Json.mkObj [("err", "FileNotFoundError"), ("unpacked", strArr left)])
  | .ok n st => pure (Lean.Json.mkObj [("removed", n), ("store", strArr st), ("unpacked", strArr left)])

/-! ### index diff -/

def indexOf (j : Lean.Json) : Except String (Option IndexDiff.Index) :=
  match j with
  | .null => pure none
  | j => do
    let es ← (← j.getArr?).toList.mapM fun e => do pure (← keyOf (← e.getObjVal? "key"), ← entryOf e)
    pure (some es)

def optsOf (j : Lean.Json) : Except String IndexDiff.Opts := do
  let c := match j.getObjVal? "cmp" with | .ok (.str "dirExec") => IndexDiff.Cmp.dirExec | _ => IndexDiff.Cmp.full
  pure { withUnchanged := boolOf j "with_unchanged", hashOnly := boolOf j "hash_only", metaOnly := boolOf j "meta_only",
         shallow := boolOf j "shallow", withRenames := boolOf j "with_renames", cmp := c }

def typTo : IndexDiff.Typ → String
  | .add => "add" | .modify => "modify" | .delete => "delete" | .unchanged => "unchanged" | .rename => "rename"

def optKeyTo (o : Option (Path.Key × MetaInfo.Entry)) : Lean.Json :=
  match o with | some p => keyTo p.1 | none => .null

def opIndexDiff (j : Lean.Json) : Except String Lean.Json := do
  let old ← indexOf (j.getObjVal? "old" |>.toOption.getD .null)
  let new ← indexOf (j.getObjVal? "new" |>.toOption.getD .null)
  let o ← optsOf (← j.getObjVal? "opts")
  let cs := IndexDiff.diff o old new
  pure (Lean.Json.mkObj [("changes", Lean.Json.arr (cs.map fun c =>
    Lean.Json.arr #[.str (typTo c.typ), optKeyTo c.old, optKeyTo c.new]).toArray)])

/-- `save(index, odb)`: the entries after the directory loop, the listing bytes filed for every directory,
    and the identifiers handed to `cache.add` -/
def opIndexSave (j : Lean.Json) : Except String Lean.Json := do
  match ← indexOf (← j.getObjVal? "index") with
  | none => throw "index_save: no index"
  | some idx =>
    let saved := IndexSave.saveDirs md5Chars idx
    let dirs := idx.filter fun e => IndexSave.isDirEntry e.2
    pure (Lean.Json.mkObj [
      ("entries", Lean.Json.arr (saved.map fun e => Lean.Json.mkObj [("key", keyTo e.1), ("entry", entryTo e.2)]).toArray),
      ("trees", Lean.Json.arr (dirs.map fun e => Lean.Json.mkObj [("key", keyTo e.1),
          ("bytes", String.ofList (Tree.asBytes false (IndexSave.treeBelow idx e.1)))]).toArray),
      ("file_oids", Lean.Json.arr ((IndexSave.fileOids idx).map fun o => Lean.Json.str (String.ofList o)).toArray),
      ("idempotent", .bool (IndexSave.saveDirs md5Chars saved == saved))])

/-- `update(new, old)`: the hash of every entry of the new index afterwards -/
def opIndexUpdate (j : Lean.Json) : Except String Lean.Json := do
  match ← indexOf (← j.getObjVal? "old"), ← indexOf (← j.getObjVal? "new") with
  | some old, some new =>
    let upd := IndexUpdate.update old new
    pure (Lean.Json.mkObj [("entries", Lean.Json.arr (upd.map fun e => Lean.Json.mkObj [("key", keyTo e.1), ("entry", entryTo e.2)]).toArray)])
  | _, _ => throw "index_update: two indexes needed"

/-- the files below a store root (as path components) -> what `all()` lists, and what a `gc` keeping `keep` leaves -/
def opStoreLayout (j : Lean.Json) : Except String Lean.Json := do
  let files ← (← arr j "files").toList.mapM fun f => do
    (← f.getArr?).toList.mapM fun p => do pure (← p.getStr?).toList
  let keep := (← strList j "keep").map String.toList
  let pathTo (p : StoreLayout.RelPath) : Lean.Json := Lean.Json.arr (p.map fun c => Lean.Json.str (String.ofList c)).toArray
  pure (Lean.Json.mkObj [
    ("oids", Lean.Json.arr ((StoreLayout.listOids files).map fun o => Lean.Json.str (String.ofList o)).toArray),
    ("after_gc", Lean.Json.arr ((StoreLayout.afterGc files keep).map pathTo).toArray)])

/-- `StorageMapping` after a sequence of `add_*` calls: what each probe key resolves to, per role -/
def opStorageMap (j : Lean.Json) : Except String Lean.Json := do
  let roleOf (s : String) : Except String PushFetch.Role :=
    match s with | "data" => pure .data | "cache" => pure .cache | "remote" => pure .remote | _ => throw "storage_map: role"
  let keyOf (a : Lean.Json) : Except String Path.Key := do
    (← a.getArr?).toList.mapM fun p => do pure (← p.getStr?).toList
  let decls ← (← arr j "decls").toList.mapM fun d => do
    pure ({ pfx := ← keyOf (← d.getArrVal? 0), role := ← roleOf (← (← d.getArrVal? 1).getStr?),
            store := ← (← d.getArrVal? 2).getStr? } : PushFetch.Decl)
  let probes ← (← arr j "probes").toList.mapM keyOf
  let m := PushFetch.build decls
  let optTo (o : Option String) : Lean.Json := match o with | some x => .str x | none => .null
  pure (Lean.Json.mkObj [("resolved", Lean.Json.arr (probes.map fun k =>
    match PushFetch.resolve m k with
    | none => Lean.Json.null
    | some i => Lean.Json.mkObj [("data", optTo i.data), ("cache", optTo i.cache), ("remote", optTo i.remote)]).toArray)])

/-- several `build()` calls for one store (each with its own reference table), then transfers out of them, against the
    workspace as it is at transfer time: the file objects the store holds afterwards (oid, md5 of the bytes filed under it) -/
def opStaging (j : Lean.Json) : Except String Lean.Json := do
  let fsOf (a : Lean.Json) : Except String Staging.Fs := do
    (← a.getArr?).toList.mapM fun e => do
      pure ((← (← e.getArrVal? 0).getStr?).toList, ← unhex (← (← e.getArrVal? 1).getStr?))
  let now ← fsOf (← j.getObjVal? "fs_now")
  let steps ← (← arr j "transfers").toList.mapM fun t => do
    let staged ← fsOf (← t.getObjVal? "staged")
    pure (staged, ← strList t "oids")
  let store := steps.foldl (fun st (x : Staging.Fs × List String) =>
    Staging.transferStaged now (Staging.stage md5Of x.1 (x.1.map (·.1))) x.2 st) ([] : Staging.Store)
  pure (Lean.Json.mkObj [("store", Lean.Json.arr (store.map fun e => Lean.Json.arr #[.str e.1, .str (md5Of e.2)]).toArray)])

/-- `fetch` from a file-storage remote into an object cache: (fetched, failed) and the cache afterwards -/
def opFetchCounts (j : Lean.Json) : Except String Lean.Json := do
  let cache ← strList j "cache"
  let items ← (← arr j "items").toList.mapM fun e => do
    let kind ← match (← (← e.getArrVal? 1).getStr?) with
      | "ok" => pure Fetch.Copy.ok
      | "missing" => pure Fetch.Copy.missing
      | "failed" => pure Fetch.Copy.failed
      | k => throw s!"fetch_counts: bad kind {k}"
    pure ({ oid := ← (← e.getArrVal? 0).getStr?, copy := kind } : Fetch.Item)
  let r := Fetch.fetch cache items
  pure (Lean.Json.mkObj [("fetched", r.fetched), ("failed", r.failed), ("cache", strArr r.cache),
    ("had_to_move", (Fetch.hadToMove cache items).length)])

/-- the dictionary checkout tokenises for the link record, from its own bookkeeping, and the one a walk of the workspace gives -/
def opLinkToken (j : Lean.Json) : Except String Lean.Json := do
  let pairs (a : Lean.Json) : Except String (List (List Char × Nat)) := do
    (← a.getArr?).toList.mapM fun e => do pure ((← (← e.getArrVal? 0).getStr?).toList, ← (← e.getArrVal? 1).getNat?)
  let ws ← pairs (← j.getObjVal? "ws")
  let updated ← pairs (← j.getObjVal? "updated")
  let unchanged ← (← arr j "unchanged").toList.mapM fun e => do
    let t : Option Nat := match e.getArrVal? 1 with | .ok (.num n) => some n.mantissa.toNat | _ => none
    pure ((← (← e.getArrVal? 0).getStr?).toList, t)
  let toJ (l : List (List Char × Nat)) : Lean.Json := Lean.Json.arr (l.map fun e => Lean.Json.arr #[.str (String.ofList e.1), .num e.2]).toArray
  pure (Lean.Json.mkObj [("from_changes", toJ (LinkRecord.canon (LinkRecord.fromChanges (AList.lookup ws) updated unchanged))),
    ("walk", toJ (LinkRecord.canon ws))])

/-- `checkout(path, fs, None, cache)` without force: completed or refused, and what is left, for one order of the entries -/
def opCheckoutNone (j : Lean.Json) : Except String Lean.Json := do
  let ws ← (← arr j "ws").toList.mapM fun e => do
    pure (← keyOf (← e.getObjVal? "key"), ({ oid := ← str e "oid", link := .copy } : Checkout.WFile))
  let cache ← strList j "cache"
  let order ← (← arr j "order").toList.mapM fun e => do
    match e with
    | .str "ROOT" => pure Checkout.Del.root
    | k => pure (Checkout.Del.file (← keyOf k))
  let cfg : Checkout.Cfg := { force := false, relink := false, prompt := none, types := [.copy] }
  let r := Checkout.checkoutNone cfg cache (boolOf j "dir_cached") ws order
  pure (Lean.Json.mkObj [("completed", .bool r.1), ("left", Lean.Json.arr (r.2.map fun e => keyTo e.1).toArray)])

/-- `DataFileSystem._get_key` on a table of path spellings -/
def opFsKey (j : Lean.Json) : Except String Lean.Json := do
  let ps ← strList j "paths"
  pure (Lean.Json.mkObj [("keys", Lean.Json.arr (ps.map fun p => keyTo (FsPath.getKey p.toList)).toArray)])

def optEntryOf (j : Lean.Json) : Except String (Option MetaInfo.Entry) :=
  match j with | .null => pure none | j => do pure (some (← entryOf j))

def opDiffEntry (j : Lean.Json) : Except String Lean.Json := do
  let rows ← (← arr j "rows").toList.mapM fun r => do
    let o ← optsOf (← r.getObjVal? "opts")
    pure (typTo (IndexDiff.diffEntry o (← optEntryOf (r.getObjVal? "old" |>.toOption.getD .null))
                                       (← optEntryOf (r.getObjVal? "new" |>.toOption.getD .null))))
  pure (Lean.Json.mkObj [("typ", strArr rows)])

/-! ### index checkout -/

def wsOf (j : Lean.Json) : Except String IndexCheckout.Ws := do
  (← j.getArr?).toList.mapM fun e => do
    let k ← keyOf (← e.getObjVal? "key")
    match e.getObjVal? "oid" with
    | .ok (.str oid) => pure (k, IndexCheckout.Node.file oid.toList (boolOf e "exec"))
    | _ => pure (k, IndexCheckout.Node.dir)

def wsTo (ws : IndexCheckout.Ws) : Lean.Json :=
  Lean.Json.arr (ws.map fun e => match e.2 with
    | .dir => Lean.Json.mkObj [("key", keyTo e.1)]
    | .file oid ex => Lean.Json.mkObj [("key", keyTo e.1), ("oid", String.ofList oid), ("exec", .bool ex)]).toArray

def keysTo (l : List (Path.Key × MetaInfo.Entry)) : Lean.Json := Lean.Json.arr (l.map fun p => keyTo p.1).toArray

def actionsTo (a : IndexCheckout.Actions) : Lean.Json :=
  Lean.Json.mkObj [("files_delete", keysTo a.filesDelete), ("dirs_delete", keysTo a.dirsDelete),
    ("files_create", keysTo a.filesCreate), ("dirs_create", keysTo a.dirsCreate), ("files_chmod", keysTo a.filesChmod)]

def opIdxCheckout (j : Lean.Json) : Except String Lean.Json := do
  let ws ← wsOf (← j.getObjVal? "ws")
  let new ← indexOf (← j.getObjVal? "new")
  let cache := (← strList j "cache").map (·.toList)
  let delete := boolOf j "delete"
  let old := some (IndexCheckout.indexOfWs ws)
  let a := IndexCheckout.compare delete old new
  match IndexCheckout.apply cache a ws with
  | .crash w => pure (Lean.Json.mkObj [("actions", actionsTo a), ("crash", w)])
  | .ok ws' errs =>
    let a2 := IndexCheckout.compare delete (some (IndexCheckout.indexOfWs ws')) new
    pure (Lean.Json.mkObj [("actions", actionsTo a), ("ws", wsTo ws'),
      ("errors", Lean.Json.arr (errs.map keyTo).toArray), ("second", actionsTo a2)])

/-! ### hash-state cache histories -/

def stampOf (j : Lean.Json) : Except String State.Stamp := do
  match (← j.getArr?).toList with
  | [a, b, c] => pure { ino := ← a.getNat?, mtime := ← b.getNat?, size := ← c.getNat? }
  | _ => throw "stamp"

def hitTo : Option (String × String) → Lean.Json
  | none => .null
  | some (a, v) => Lean.Json.arr #[.str a, .str v]

/-- the digests of the current bytes are supplied by the caller: `H` is a parameter of the model -/
def digestTable (j : Lean.Json) : Except String (List (String × String)) := do
  (← j.getArr?).toList.mapM fun p => do
    match (← p.getArr?).toList with
    | [a, v] => pure (← a.getStr?, ← v.getStr?)
    | _ => throw "digest pair"

def stateStep (st : State.Db × State.Fs) (j : Lean.Json) : Except String ((State.Db × State.Fs) × Lean.Json) := do
  let (db, fs) := st
  let isLocal := match j.getObjVal? "local" with | .ok (.bool false) => false | _ => true
  match (← str j "op") with
  | "write" =>
    let p ← str j "path"
    pure ((db, State.mutate fs p (← unhex (← str j "bytes")) (← stampOf (← j.getObjVal? "stamp"))), .null)
  | "delete" => pure ((db, State.delete fs (← str j "path")), .null)
  | "save" =>
    let p ← str j "path"
    let al ← str j "algo"
    let vl ← str j "value"
    pure ((if isLocal then State.save db fs p al vl else db, fs), .null)
  | "raw_row" =>
    let p ← str j "path"
    let ver := match j.getObjVal? "version" with | .ok (.num n) => some n.mantissa.toNat | _ => none
    let ck ← stampOf (← j.getObjVal? "stamp")
    let sz ← nat j "size"
    let al ← str j "algo"
    let vl ← str j "value"
    let row : State.Row := { version := ver, checksum := ck, size := sz, algo := al, value := vl }
    pure ((db.set p row, fs), .null)
  | "get" => pure ((db, fs), hitTo (State.get db fs isLocal (← str j "path")))
  | "get_many" =>
    let ps ← strList j "paths"
    pure ((db, fs), Lean.Json.arr ((State.getMany db fs isLocal ps).map fun r => hitTo r.2).toArray)
  | "hash_file" =>
    let p ← str j "path"
    let name ← str j "name"
    let tbl ← digestTable (← j.getObjVal? "digests")
    let H : State.Algo → State.Bytes → State.Digest := fun a _ => ((tbl.find? (·.1 = a)).map (·.2)).getD "?"
    match State.hashFile H db fs isLocal p name with
    | none => pure ((db, fs), Lean.Json.str "FileNotFoundError")
    | some (v, db') => pure ((db', fs), Lean.Json.str v)
  | o => throw s!"bad state op {o}"

def opStateHistory (j : Lean.Json) : Except String Lean.Json := do
  let ops ← arr j "ops"
  let mut st : State.Db × State.Fs := ([], [])
  let mut outs : Array Lean.Json := #[]
  for o in ops do
    let (st', out) ← stateStep st o
    st := st'
    outs := outs.push out
  pure (Lean.Json.mkObj [("results", Lean.Json.arr outs)])

/-! ### object store integrity histories (md5 stores: the driver computes the digests itself) -/

def md5H : State.Algo → State.Bytes → State.Digest := fun _ b => Md5.hex (ByteArray.mk b.toArray)

/-- one `add(path, fs, oid, verify=...)` into an empty store (no hash-state rows): the verdict and what sits under the name -/
def opStoreAdd (j : Lean.Json) : Except String Lean.Json := do
  let arg : Option Bool := match j.getObjVal? "verify_arg" with | .ok (.bool b) => some b | _ => none
  let data ← unhex (← str j "data")
  let r := Store.add md5H (boolOf j "local") "md5" (boolOf j "store_verify") arg [] [] (← str j "oid") data
    { ino := 1, mtime := 1, size := data.length }
  let verdict := match r.1 with | .ok => "ok" | .notFound => "notFound" | .corrupt => "corrupt"
  pure (Lean.Json.mkObj [("verdict", verdict),
    ("store", Lean.Json.arr (r.2.1.map fun e => Lean.Json.arr #[.str e.1, .str (md5H "md5" e.2.data), .bool e.2.prot]).toArray)])


def storeTo (st : Store.Store) : Lean.Json :=
  Lean.Json.arr (st.map fun e => Lean.Json.arr #[.str e.1, .str (md5Of e.2.data), .bool e.2.prot]).toArray

def checkResTo : Store.CheckRes → String
  | .ok => "ok" | .notFound => "FileNotFoundError" | .corrupt => "ObjectFormatError"

def storeStep (s : State.Db × Store.Store) (j : Lean.Json) : Except String ((State.Db × Store.Store) × Lean.Json) := do
  let (db, st) := s
  let localClass := boolOf j "local"
  match (← str j "op") with
  | "put" =>
    let oid ← str j "oid"
    let data ← unhex (← str j "data")
    let stamp ← stampOf (← j.getObjVal? "stamp")
    pure ((db, st.set oid { data, prot := boolOf j "prot", stamp }), .null)
  | "rm" => pure ((db, st.erase (← str j "oid")), .null)
  | "save" =>
    let oid ← str j "oid"
    let v ← str j "value"
    pure ((State.save db (Store.fsOf st) oid "md5" v, st), .null)
  | "check" =>
    let (r, st', db') := Store.check md5H localClass "md5" db st (← str j "oid")
    pure ((db', st'), Lean.Json.mkObj [("res", checkResTo r), ("store", storeTo st')])
  | "oids_exist" =>
    let (found, st', db') := Store.oidsExistLocal md5H "md5" (← strList j "oids") db st
    pure ((db', st'), Lean.Json.mkObj [("found", strArr found), ("store", storeTo st')])
  | "add_nocheck" =>
    -- one object of add(..., check_exists=False); "data": null = the copy fails
    let oid ← str j "oid"
    let src ← match j.getObjVal? "data" with
      | .ok (.str h) => do pure (some (← unhex h, ← stampOf (← j.getObjVal? "stamp")))
      | _ => pure none
    let (failed, st', db') := Store.addBatch localClass "md5" db st [(oid, src)]
    pure ((db', st'), Lean.Json.mkObj [("failed", strArr failed), ("store", storeTo st')])
  | o => throw s!"bad store op {o}"

def opStoreHistory (j : Lean.Json) : Except String Lean.Json := do
  let ops ← arr j "ops"
  let mut s : State.Db × Store.Store := ([], [])
  let mut outs : Array Lean.Json := #[]
  for o in ops do
    let (s', out) ← storeStep s o
    s := s'
    outs := outs.push out
  pure (Lean.Json.mkObj [("results", Lean.Json.arr outs)])

/-! ### object checkout -/

def linkOf (s : String) : Except String Checkout.LinkKind :=
  match s with
  | "copy" => pure .copy | "hardlink" => pure .hardlink | "symlink" => pure .symlink
  | "reflink" => pure .copy
  | _ => throw s!"bad link {s}"

def linkTo : Checkout.LinkKind → String
  | .copy => "copy" | .hardlink => "hardlink" | .symlink => "symlink"

def opObjCheckout (j : Lean.Json) : Except String Lean.Json := do
  let ws ← (← arr j "ws").toList.mapM fun e => do
    let k ← keyOf (← e.getObjVal? "key")
    let o ← str e "oid"
    let l ← linkOf (← str e "link")
    pure (k, ({ oid := o, link := l, toCache := boolOf e "to_cache" } : Checkout.WFile))
  -- a workspace entry that cannot be read (the harness reports its content as "broken": a link to nothing)
  let broken := ws.any fun e => e.2.oid = "broken"
  let target ← (← arr j "target").toList.mapM fun e => do
    let k ← keyOf (← e.getObjVal? "key")
    let o ← str e "oid"
    pure (k, o)
  let cache ← strList j "cache"
  let types ← (← strList j "types").mapM linkOf
  let prompt := match j.getObjVal? "prompt" with | .ok (.bool b) => some b | _ => none
  let cfg : Checkout.Cfg := { force := boolOf j "force", relink := boolOf j "relink", prompt, types }
  let order := (ws.map (·.1)) ++ (target.map (·.1))
  let r := Checkout.checkoutFrom cfg cache ws broken target order order
  let out := match r.outcome with
    | .unreadable => Lean.Json.mkObj [("err", "FileNotFoundError")]
    | .ok b => Lean.Json.mkObj [("ok", .bool b)]
    | .promptError k => Lean.Json.mkObj [("err", "PromptError"), ("path", keyTo k)]
    | .checkoutError ks => Lean.Json.mkObj [("err", "CheckoutError"), ("paths", Lean.Json.arr (ks.map keyTo).toArray)]
  pure (Lean.Json.mkObj [("outcome", out), ("ws", Lean.Json.arr (r.ws.map fun e =>
    Lean.Json.mkObj [("key", keyTo e.1), ("oid", e.2.oid), ("link", linkTo e.2.link)]).toArray)])

def opNeedsRelink (j : Lean.Json) : Except String Lean.Json := do
  let rows ← (← arr j "rows").toList.mapM fun r => do
    let types ← (← strList r "types").mapM linkOf
    let l ← linkOf (← str r "link")
    pure (Checkout.needsRelink types { oid := "x", link := l, toCache := boolOf r "to_cache" } (boolOf r "cache_known"))
  pure (Lean.Json.mkObj [("r", bits rows)])

/-! ### staging: the names under which contents and listings are filed -/

/-- the content in the pieces a file is read in (`chunk_size=2**20` of `file_md5`) -/
partial def readChunks (n : Nat) (data : List UInt8) : List (List UInt8) :=
  if data.isEmpty then [] else data.take n :: readChunks n (data.drop n)

def fileName (algo : String) (data : List UInt8) : String :=
  if algo = "md5-dos2unix" then
    -- the legacy stream decides text / binary for every chunk it reads (`Hash.readDos2Unix`)
    md5Of (Hash.runStream "md5-dos2unix" (readChunks (2 ^ 20) data)).fed
  else md5Of data

/-- {"op":"names","algo":..,"files":[hex..],"trees":[[[key parts],fileIndex]..]]} -/
def opNames (j : Lean.Json) : Except String Lean.Json := do
  let algo ← str j "algo"
  let files ← hexList j "files"
  let fnames := files.map (fileName algo)
  let trees ← (← arr j "trees").toList.mapM fun t => do
    (← t.getArr?).toList.mapM fun e => do
      match (← e.getArr?).toList with
      | [k, i] => pure (← keyOf k, ← i.getNat?)
      | _ => throw "tree entry"
  let treeOut := trees.map fun t =>
    let tr : Tree.Tree := t.map fun e =>
      (e.1, (none, some { name := some algo.toList, value := some ((fnames.getD e.2 "?").toList) }))
    let staged := Build.stage (fun d => fileName algo d) (fun _ => "") (t.map fun e => (e.1, files.getD e.2 [])) []
    Lean.Json.mkObj [("oid", String.ofList (Tree.digest md5Chars tr)), ("bytes", String.ofList (Tree.asBytes false tr)),
      ("nfiles", staged.nfiles), ("size", staged.size),
      ("roundtrip", .bool ((Build.materialise staged.store staged.entries) == some (t.map fun e => (e.1, files.getD e.2 []))))]
  pure (Lean.Json.mkObj [("files", strArr fnames), ("trees", Lean.Json.arr treeOut.toArray)])

/-! ### lazy index queries -/

def lentryTo (e : IndexLazy.LEntry) : Lean.Json :=
  Lean.Json.arr #[.bool e.isdir, match e.hash with | some h => .str h | none => .null]

def keyLtJ (a b : Path.Key × IndexLazy.LEntry) : Bool := decide (a.1 ≤ b.1)

def opLazy (j : Lean.Json) : Except String Lean.Json := do
  let idx0 ← (← arr j "entries").toList.mapM fun e => do
    let k ← keyOf (← e.getObjVal? "key")
    let h := match e.getObjVal? "hash" with | .ok (.str s) => some s | _ => none
    pure (k, ({ isdir := boolOf e "isdir", hash := h, loaded := boolOf e "loaded" } : IndexLazy.LEntry))
  let listings ← (← arr j "listings").toList.mapM fun p => do
    match (← p.getArr?).toList with
    | [o, es] =>
      let ents ← (← es.getArr?).toList.mapM fun e => do
        match (← e.getArr?).toList with
        | [k, f] => pure (← keyOf k, ← f.getStr?)
        | _ => throw "listing entry"
      pure (← o.getStr?, ents)
    | _ => throw "listing"
  let load : String → Option IndexLazy.Listing := fun o => (listings.find? (·.1 = o)).map (·.2)
  let mut idx := idx0
  let mut outs : Array Lean.Json := #[]
  for q in (← arr j "queries") do
    match (← str q "q") with
    | "get" =>
      let (i', r) := IndexLazy.getItem load idx (← keyOf (← q.getObjVal? "key"))
      idx := i'
      outs := outs.push (match r with | some e => lentryTo e | none => Lean.Json.str "KeyError")
    | "iter" =>
      let (i', items) := IndexLazy.iterItems load idx (← keyOf (← q.getObjVal? "key"))
      idx := i'
      outs := outs.push (Lean.Json.arr ((items.mergeSort keyLtJ).map fun e => Lean.Json.arr #[keyTo e.1, lentryTo e.2]).toArray)
    | "ls" =>
      let (i', r) := IndexLazy.lsAt load idx (← keyOf (← q.getObjVal? "key"))
      idx := i'
      outs := outs.push (match r with
        | some ks => Lean.Json.arr ((ks.mergeSort fun a b => decide (a ≤ b)).map keyTo).toArray
        | none => Lean.Json.str "KeyError")
    | "expand" =>
      let ex := IndexLazy.expand load idx
      outs := outs.push (Lean.Json.arr ((ex.mergeSort keyLtJ).map fun e => Lean.Json.arr #[keyTo e.1, lentryTo e.2]).toArray)
    | "view" =>
      -- prefix-closed filter given as the list of accepted keys
      let acc ← (← arr q "accept").toList.mapM keyOf
      let items := IndexLazy.viewItems load idx fun k => acc.contains k
      outs := outs.push (Lean.Json.arr ((items.mergeSort keyLtJ).map fun e => Lean.Json.arr #[keyTo e.1, lentryTo e.2]).toArray)
    | "view_prefix" =>
      let acc ← (← arr q "accept").toList.mapM keyOf
      let (i', items) := IndexLazy.viewIter load idx (fun k => acc.contains k) (← keyOf (← q.getObjVal? "key"))
      idx := i'
      outs := outs.push (Lean.Json.arr ((items.mergeSort keyLtJ).map fun e => Lean.Json.arr #[keyTo e.1, lentryTo e.2]).toArray)
    | o => throw s!"bad lazy query {o}"
  pure (Lean.Json.mkObj [("results", Lean.Json.arr outs)])

/-! ### storage mappings and push/fetch plans -/

def optStrJ (j : Lean.Json) (f : String) : Option String :=
  match j.getObjVal? f with | .ok (.str s) => some s | _ => none

def opPushPlan (j : Lean.Json) : Except String Lean.Json := do
  let idx ← (← arr j "entries").toList.mapM fun e => do
    let k ← keyOf (← e.getObjVal? "key")
    pure (k, ({ isdir := boolOf e "isdir", hash := optStrJ e "hash", loaded := boolOf e "loaded" } : IndexLazy.LEntry))
  let listings ← (← arr j "listings").toList.mapM fun p => do
    match (← p.getArr?).toList with
    | [o, es] =>
      let ents ← (← es.getArr?).toList.mapM fun e => do
        match (← e.getArr?).toList with
        | [k, f] => pure (← keyOf k, ← f.getStr?)
        | _ => throw "listing entry"
      pure (← o.getStr?, ents)
    | _ => throw "listing"
  let load : String → Option IndexLazy.Listing := fun o => (listings.find? (·.1 = o)).map (·.2)
  let m ← (← arr j "mapping").toList.mapM fun e => do
    pure (← keyOf (← e.getObjVal? "prefix"),
      ({ data := optStrJ e "data", cache := optStrJ e "cache", remote := optStrJ e "remote" } : PushFetch.SInfo))
  let role := match optStrJ j "role" with | some "cache" => PushFetch.Role.cache | some "data" => .data | _ => .remote
  let storesL ← strList j "stores"
  let keys ← (← arr j "resolve").toList.mapM keyOf
  pure (Lean.Json.mkObj [
    ("plan", Lean.Json.arr (storesL.map fun s => Lean.Json.arr #[.str s, strArr (PushFetch.plan load idx m role s)]).toArray),
    ("resolve", Lean.Json.arr (keys.map fun k => match PushFetch.resolve m k with
      | none => Lean.Json.str "StorageKeyError"
      | some i => Lean.Json.arr #[optS (i.data.map (·.toList)), optS (i.cache.map (·.toList)), optS (i.remote.map (·.toList))]).toArray)])

/-! ### concurrent writers: run a schedule -/

def pcTo : Conc.Pc → String
  | .stat => "stat" | .read => "read" | .discard => "discard" | .vprotect => "vprotect" | .probe => "probe"
  | .unlink => "unlink" | .create => "create" | .write => "write" | .protect => "protect" | .save => "save"
  | .done => "done" | .restat => "restat" | .reread => "reread" | .rediscard => "rediscard" | .failed => "failed"

def objsTo (s : Crash.S) (watch : List String) : Lean.Json :=
  Lean.Json.arr (watch.map fun oid => match AList.lookup s.objs oid with
    | none => Lean.Json.arr #[.str oid, .null]
    | some o => Lean.Json.arr #[.str oid, Lean.Json.mkObj [("len", o.data.length), ("ok", decide (md5Of o.data = (oid.splitOn ".").head!)),
        ("prot", o.prot)]]).toArray

def opSched (j : Lean.Json) : Except String Lean.Json := do
  let root ← bool j "root"
  let objs ← (← arr j "objs").toList.mapM fun o => do
    pure (← str o "oid", ({ data := ← unhex (← str o "data"), prot := ← bool o "prot" } : Crash.Obj))
  let ths ← (← arr j "threads").toList.mapM fun t => do
    -- `check_exists=false` (what `transfer()` passes): the writer starts straight at the copy
    let start : Conc.Pc := match t.getObjVal? "check_exists" with | .ok (.bool false) => .probe | _ => .stat
    pure ({ oid := ← str t "oid", t := (← nat t "tmp", 0), chunks := ← hexList t "chunks", pc := start } : Conc.Thread)
  let sched ← (← arr j "sched").toList.mapM fun x => x.getNat?
  let watch ← strList j "watch"
  let H : Crash.Bytes → Crash.Oid := fun b => md5Of b
  let mut c : Conc.Cfg := ({ objs := objs }, ths)
  let mut out : Array Lean.Json := #[]
  for i in sched do
    let before := match c.2[i]? with | some th => pcTo th.pc | none => "none"
    c := Conc.stepAt root H c i
    let after := match c.2[i]? with | some th => pcTo th.pc | none => "none"
    out := out.push (Lean.Json.mkObj [("w", i), ("pc", before), ("pc_after", after), ("after", objsTo c.1 watch)])
  pure (Lean.Json.mkObj [("steps", Lean.Json.arr out), ("pcs", strArr (c.2.map fun th => pcTo th.pc)),
    ("rows", strArr c.1.rows), ("final", objsTo c.1 watch)])

def kindOf (s : String) : Except String Merge.Kind :=
  match s with
  | "add" => pure .add | "remove" => pure .remove | "change" => pure .change
  | _ => throw s!"bad kind {s}"

def opMerge (j : Json) : Except String Json := do
  let allowed ← (← strList j "allowed").mapM kindOf
  let a ← pairList (← j.getObjVal? "a")
  let o ← pairList (← j.getObjVal? "o")
  let t ← pairList (← j.getObjVal? "t")
  match Merge.merge allowed a o t with
  | .ok r => pure (Json.mkObj [("ok", pairsJson r)])
  | .mergeError => pure (Json.mkObj [("err", "MergeError")])

def dispatch (j : Json) : Except String Json := do
  match (← str j "op") with
  | "merge" => opMerge j
  | "hashstream" => opHashStream j
  | "istext_table" => opIsTextTable j
  | "textchars" => opTextChars j
  | "istextblock" => opIsTextBlock j
  | "dos2unix" => opDos2Unix j
  | "tree_bytes" => opTreeBytes j
  | "tree_fromlist" => opTreeFromList j
  | "tree_parse" => opTreeParse j
  | "subtree" => opSubtree j
  | "esc_range" => opEscRange j
  | "path" => opPath j
  | "entries" => opEntries j
  | "status" => opStatus j
  | "compare" => opCompare j
  | "transfer" => opTransfer j
  | "gc" => opGc j
  | "index_diff" => opIndexDiff j
  | "diff_entry" => opDiffEntry j
  | "index_save" => opIndexSave j
  | "storage_map" => opStorageMap j
  | "index_update" => opIndexUpdate j
  | "store_layout" => opStoreLayout j
  | "staging" => opStaging j
  | "fetch_counts" => opFetchCounts j
  | "store_add" => opStoreAdd j
  | "link_token" => opLinkToken j
  | "checkout_none" => opCheckoutNone j
  | "fs_key" => opFsKey j
  | "idx_checkout" => opIdxCheckout j
  | "state_history" => opStateHistory j
  | "store_history" => opStoreHistory j
  | "obj_checkout" => opObjCheckout j
  | "needs_relink" => opNeedsRelink j
  | "names" => opNames j
  | "lazy" => opLazy j
  | "push_plan" => opPushPlan j
  | "sched" => opSched j
  | "ping" => pure (Json.mkObj [("pong", true)])
  | op => throw s!"unknown op {op}"

end Driver

partial def loop (h : IO.FS.Stream) (out : IO.FS.Stream) : IO Unit := do
  let line ← h.getLine
  if line.isEmpty then return ()
  let ans := match Json.parse line with
    | .ok j => match Driver.dispatch j with
      | .ok r => r
      | .error e => Json.mkObj [("bad-op", e)]
    | .error e => Json.mkObj [("bad-op", s!"parse: {e}")]
  out.putStrLn ans.compress
  loop h out

def main : IO Unit := do
  let out ← IO.getStdout
  loop (← IO.getStdin) out
  out.flush
