import DvcData.Model.Basic
import DvcData.Model.Merge
import DvcData.Proofs.AList
import DvcData.Proofs.Merge
import DvcData.Props.C19
import DvcData.Model.Md5
import DvcData.Model.Hash
import DvcData.Props.C14
